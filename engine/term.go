package main

// Hash-consed bit-vector / boolean term DAG with eager simplification,
// unsigned range analysis, SMT-LIB2 printing and concrete evaluation.

import (
	"fmt"
	"math/bits"
	"sort"
	"strings"
)

type Op uint8

const (
	OpConst Op = iota
	OpVar
	OpNot
	OpAnd
	OpOr
	OpIte
	OpEq
	OpAdd
	OpSub
	OpMul
	OpUDiv
	OpURem
	OpSDiv
	OpSRem
	OpBAnd
	OpBOr
	OpBXor
	OpShl
	OpLShr
	OpAShr
	OpBNot
	OpNeg
	OpUlt
	OpUle
	OpSlt
	OpSle
	OpExtract
	OpConcat
	OpZext
	OpSext
	OpSelect // a[0] = index (64 bit); name = base array; w = element width
)

var opNames = map[Op]string{
	OpNot: "not", OpAnd: "and", OpOr: "or", OpIte: "ite", OpEq: "=",
	OpAdd: "bvadd", OpSub: "bvsub", OpMul: "bvmul", OpUDiv: "bvudiv", OpURem: "bvurem",
	OpSDiv: "bvsdiv", OpSRem: "bvsrem", OpBAnd: "bvand", OpBOr: "bvor", OpBXor: "bvxor",
	OpShl: "bvshl", OpLShr: "bvlshr", OpAShr: "bvashr", OpBNot: "bvnot", OpNeg: "bvneg",
	OpUlt: "bvult", OpUle: "bvule", OpSlt: "bvslt", OpSle: "bvsle", OpConcat: "concat",
}

// Term: w == 0 means Bool, otherwise a bit-vector of width w (1..64).
type Term struct {
	id     int
	op     Op
	w      int
	a      [3]*Term
	na     int
	c      uint64
	name   string
	hi, lo int
	// unsigned range (valid for w>0)
	rlo, rhi uint64
}

type termKey struct {
	op         Op
	w          int
	a0, a1, a2 int
	c          uint64
	name       string
	hi, lo     int
}

type TermCtx struct {
	tab    map[termKey]*Term
	nextID int
	// declared ranges of variables (name -> lo,hi)
	T, F *Term
	NoNarrow bool
	// path facts: leq[{x,y}] means x <= y (unsigned) holds on the rest of this path
	leq map[[2]int]bool
}

func NewTermCtx() *TermCtx {
	c := &TermCtx{tab: map[termKey]*Term{}, leq: map[[2]int]bool{}}
	c.T = c.mk(&Term{op: OpConst, w: 0, c: 1})
	c.F = c.mk(&Term{op: OpConst, w: 0, c: 0})
	return c
}

func mask(w int) uint64 {
	if w >= 64 {
		return ^uint64(0)
	}
	return (uint64(1) << uint(w)) - 1
}

func (c *TermCtx) mk(t *Term) *Term {
	k := termKey{op: t.op, w: t.w, c: t.c, name: t.name, hi: t.hi, lo: t.lo, a0: -1, a1: -1, a2: -1}
	if t.na > 0 {
		k.a0 = t.a[0].id
	}
	if t.na > 1 {
		k.a1 = t.a[1].id
	}
	if t.na > 2 {
		k.a2 = t.a[2].id
	}
	if e, ok := c.tab[k]; ok {
		return e
	}
	t.id = c.nextID
	c.nextID++
	if t.w > 0 {
		c.computeRange(t)
	}
	c.tab[k] = t
	return t
}

func (t *Term) IsConst() bool { return t.op == OpConst }
func (t *Term) IsTrue() bool  { return t.op == OpConst && t.w == 0 && t.c == 1 }
func (t *Term) IsFalse() bool { return t.op == OpConst && t.w == 0 && t.c == 0 }

func (c *TermCtx) Bool(b bool) *Term {
	if b {
		return c.T
	}
	return c.F
}

func (c *TermCtx) Const(w int, v uint64) *Term {
	if w == 0 {
		return c.Bool(v != 0)
	}
	return c.mk(&Term{op: OpConst, w: w, c: v & mask(w)})
}

// Var creates (or returns) a symbolic variable. lo/hi give a declared unsigned
// range used only by the range analysis; the caller must also add the
// corresponding constraint to the path condition.
func (c *TermCtx) Var(name string, w int) *Term {
	return c.mk(&Term{op: OpVar, w: w, name: name})
}

func (c *TermCtx) VarRange(name string, w int, lo, hi uint64) *Term {
	t := c.Var(name, w)
	t.rlo, t.rhi = lo, hi
	return t
}

func sext64(v uint64, w int) int64 {
	if w >= 64 {
		return int64(v)
	}
	sh := uint(64 - w)
	return int64(v<<sh) >> sh
}

func (c *TermCtx) computeRange(t *Term) {
	m := mask(t.w)
	t.rlo, t.rhi = 0, m
	switch t.op {
	case OpConst:
		t.rlo, t.rhi = t.c, t.c
	case OpZext:
		t.rlo, t.rhi = t.a[0].rlo, t.a[0].rhi
	case OpExtract:
		if t.lo == 0 && t.a[0].rhi <= m {
			t.rlo, t.rhi = t.a[0].rlo, t.a[0].rhi
		}
	case OpConcat:
		// hi ++ lo
		lw := t.a[1].w
		t.rlo = t.a[0].rlo<<uint(lw) | 0
		t.rhi = t.a[0].rhi<<uint(lw) | mask(lw)
		if t.a[0].rlo == t.a[0].rhi {
			t.rlo = t.a[0].rlo<<uint(lw) + t.a[1].rlo
			t.rhi = t.a[0].rlo<<uint(lw) + t.a[1].rhi
		}
	case OpIte:
		t.rlo = min(t.a[1].rlo, t.a[2].rlo)
		t.rhi = max(t.a[1].rhi, t.a[2].rhi)
	case OpAdd:
		hi, carry := bits.Add64(t.a[0].rhi, t.a[1].rhi, 0)
		if carry == 0 && hi <= m {
			t.rlo = t.a[0].rlo + t.a[1].rlo
			t.rhi = hi
		}
	case OpSub:
		if t.a[0].rlo >= t.a[1].rhi {
			t.rlo = t.a[0].rlo - t.a[1].rhi
			t.rhi = t.a[0].rhi - t.a[1].rlo
		}
	case OpMul:
		h, l := bits.Mul64(t.a[0].rhi, t.a[1].rhi)
		if h == 0 && l <= m {
			t.rlo = t.a[0].rlo * t.a[1].rlo
			t.rhi = l
		}
	case OpUDiv:
		if t.a[1].rlo > 0 {
			t.rlo = t.a[0].rlo / t.a[1].rhi
			t.rhi = t.a[0].rhi / t.a[1].rlo
		}
	case OpSDiv:
		sm := uint64(1) << uint(t.w-1)
		if t.a[0].rhi < sm && t.a[1].rhi < sm && t.a[1].rlo > 0 {
			t.rlo = t.a[0].rlo / t.a[1].rhi
			t.rhi = t.a[0].rhi / t.a[1].rlo
		}
	case OpURem:
		if t.a[1].rlo > 0 {
			t.rhi = min(t.a[0].rhi, t.a[1].rhi-1)
		}
	case OpSRem:
		sm := uint64(1) << uint(t.w-1)
		if t.a[0].rhi < sm && t.a[1].rhi < sm && t.a[1].rlo > 0 {
			t.rhi = min(t.a[0].rhi, t.a[1].rhi-1)
		}
	case OpBAnd:
		t.rhi = min(t.a[0].rhi, t.a[1].rhi)
	case OpBOr, OpBXor:
		// upper bound: next power of two minus one
		h := max(t.a[0].rhi, t.a[1].rhi)
		if h != 0 {
			n := bits.Len64(h)
			t.rhi = mask(n) & m
		} else {
			t.rhi = 0
		}
		if t.op == OpBOr {
			t.rlo = max(t.a[0].rlo, t.a[1].rlo)
		}
	case OpLShr:
		if t.a[1].op == OpConst {
			s := t.a[1].c
			if s >= uint64(t.w) {
				t.rlo, t.rhi = 0, 0
			} else {
				t.rlo, t.rhi = t.a[0].rlo>>s, t.a[0].rhi>>s
			}
		} else {
			t.rhi = t.a[0].rhi
		}
	case OpShl:
		if t.a[1].op == OpConst {
			s := t.a[1].c
			if s < uint64(t.w) && bits.Len64(t.a[0].rhi)+int(s) <= t.w {
				t.rlo, t.rhi = t.a[0].rlo<<s, t.a[0].rhi<<s
			}
		}
	}
	if t.rlo > t.rhi {
		t.rlo, t.rhi = 0, m
	}
}

// narrow rewrites a 64-bit term whose unsigned range is small into
// zero_extend(<the same computation in k bits>): bit-blasting 64-bit adders and
// comparators for values that are offsets < 2^17 is what made queries slow.
// normPair brings two terms to a common representation for fact lookup
// (zero-extensions stripped to the wider inner width).
func (c *TermCtx) normPair(a, b *Term) (*Term, *Term) {
	if a.w != b.w {
		return a, b
	}
	ia, ib := a, b
	if a.op == OpZext {
		ia = a.a[0]
	}
	if b.op == OpZext {
		ib = b.a[0]
	}
	if ia == a && ib == b {
		return a, b
	}
	k := max(ia.w, ib.w)
	if a.IsConst() {
		if a.c > mask(k) {
			return a, b
		}
		return c.Const(k, a.c), c.Zext(ib, k)
	}
	if b.IsConst() {
		if b.c > mask(k) {
			return a, b
		}
		return c.Zext(ia, k), c.Const(k, b.c)
	}
	if ia == a || ib == b {
		// one side is not a zext: compare in the original width
		return a, b
	}
	return c.Zext(ia, k), c.Zext(ib, k)
}

func (c *TermCtx) knownLeq(a, b *Term) bool {
	if a == b || a.rhi <= b.rlo {
		return true
	}
	if len(c.leq) == 0 {
		return false
	}
	if c.leq[[2]int{a.id, b.id}] {
		return true
	}
	x, y := c.normPair(a, b)
	return c.leq[[2]int{x.id, y.id}]
}

func (c *TermCtx) addLeq(a, b *Term, strict bool) {
	if a.w == 0 || a.w != b.w {
		return
	}
	c.leq[[2]int{a.id, b.id}] = true
	x, y := c.normPair(a, b)
	c.leq[[2]int{x.id, y.id}] = true
	// tighten ranges in place (valid for the rest of this path)
	for _, p := range [][2]*Term{{a, b}, {x, y}} {
		lo, hi := p[0], p[1]
		d := uint64(0)
		if strict {
			d = 1
		}
		if hi.op != OpConst && lo.rlo+d > hi.rlo && lo.rlo+d >= lo.rlo {
			hi.rlo = lo.rlo + d
		}
		if lo.op != OpConst && hi.rhi >= d && hi.rhi-d < lo.rhi {
			lo.rhi = hi.rhi - d
		}
		if lo.rlo > lo.rhi || hi.rlo > hi.rhi {
			// contradictory facts: path is infeasible; leave ranges untouched
		}
	}
	// x - y >= 0 facts: Sub(p,q) <= ... handled via nonneg below
}

// AddFact records what an asserted condition tells about orderings.
func (c *TermCtx) AddFact(t *Term) {
	neg := false
	if t.op == OpNot {
		neg = true
		t = t.a[0]
	}
	switch t.op {
	case OpUlt:
		if neg {
			c.addLeq(t.a[1], t.a[0], false)
		} else {
			c.addLeq(t.a[0], t.a[1], true)
		}
	case OpEq:
		if !neg && t.a[0].w > 0 {
			c.addLeq(t.a[0], t.a[1], false)
			c.addLeq(t.a[1], t.a[0], false)
		}
	case OpSlt:
		a, b := t.a[0], t.a[1]
		sm := uint64(1) << uint(a.w-1)
		if neg {
			// b <=s a
			if b.rhi < sm && b.rlo <= b.rhi {
				// b is non-negative, hence a is too and b <= a unsigned
				if a.rhi >= sm {
					a.rhi = sm - 1
				}
				c.addLeq(b, a, false)
				c.nonNegSub(a)
			}
		} else {
			// a <s b
			if b.rhi < sm && a.rlo < sm && a.rhi < sm {
				c.addLeq(a, b, true)
			}
		}
	}
}

// nonNegSub: t = p - q (64-bit, p and q small non-negative) is known to be >= 0, so q <= p.
func (c *TermCtx) nonNegSub(t *Term) {
	if t.op == OpSub {
		p, q := t.a[0], t.a[1]
		lim := uint64(1) << 62
		if p.rhi < lim && q.rhi < lim {
			c.addLeq(q, p, false)
			if p.rhi-q.rlo < t.rhi {
				t.rhi = p.rhi - q.rlo
			}
		}
	}
	if t.op == OpAdd && t.a[1].IsConst() && t.a[1].c >= uint64(1)<<63 {
		// p + (-k) >= 0  => k <= p
		p := t.a[0]
		k := -t.a[1].c
		if p.rhi < uint64(1)<<62 {
			c.addLeq(c.Const(p.w, k), p, false)
			if p.rhi-k < t.rhi {
				t.rhi = p.rhi - k
				t.rlo = 0
			}
		}
	}
}

func pickWidth(hi uint64) int {
	for _, k := range []int{8, 12, 16, 20, 24, 32} {
		if hi < uint64(1)<<uint(k) {
			return k
		}
	}
	return 64
}

func (c *TermCtx) narrow(t *Term) *Term {
	if t.w != 64 || c.NoNarrow {
		return t
	}
	switch t.op {
	case OpAdd, OpMul, OpBOr, OpBAnd, OpBXor, OpIte, OpShl, OpSub, OpLShr, OpUDiv, OpURem:
	default:
		return t
	}
	if t.rhi >= uint64(1)<<31 {
		return t
	}
	k := pickWidth(t.rhi)
	if t.op == OpUDiv || t.op == OpURem {
		a, b := t.a[0], t.a[1]
		if a.rhi >= uint64(1)<<31 || b.rhi >= uint64(1)<<31 {
			return t
		}
		k = pickWidth(max(a.rhi, b.rhi))
		na, nb := c.Extract(a, k-1, 0), c.Extract(b, k-1, 0)
		if t.op == OpUDiv {
			return c.Zext(c.UDiv(na, nb), 64)
		}
		return c.Zext(c.URem(na, nb), 64)
	}
	if t.op == OpSub && t.a[0].rlo < t.a[1].rhi && !c.knownLeq(t.a[1], t.a[0]) {
		return t // may wrap below zero
	}
	if t.op == OpSub {
		// operands may be larger than the result: compute in the operand width
		k = pickWidth(max(t.a[0].rhi, t.a[1].rhi))
		if k >= 64 {
			return t
		}
	}
	if t.op == OpLShr {
		return t
	}
	in := c.Extract(t, k-1, 0)
	if in.op == OpExtract && in.a[0] == t {
		return t
	}
	return c.Zext(in, 64)
}

func (c *TermCtx) Not(a *Term) *Term {
	if a.IsConst() {
		return c.Bool(a.c == 0)
	}
	if a.op == OpNot {
		return a.a[0]
	}
	return c.mk(&Term{op: OpNot, w: 0, a: [3]*Term{a}, na: 1})
}

func (c *TermCtx) And(a, b *Term) *Term {
	if a.IsFalse() || b.IsFalse() {
		return c.F
	}
	if a.IsTrue() {
		return b
	}
	if b.IsTrue() {
		return a
	}
	if a == b {
		return a
	}
	if (a.op == OpNot && a.a[0] == b) || (b.op == OpNot && b.a[0] == a) {
		return c.F
	}
	if a.id > b.id {
		a, b = b, a
	}
	return c.mk(&Term{op: OpAnd, w: 0, a: [3]*Term{a, b}, na: 2})
}

func (c *TermCtx) Or(a, b *Term) *Term {
	if a.IsTrue() || b.IsTrue() {
		return c.T
	}
	if a.IsFalse() {
		return b
	}
	if b.IsFalse() {
		return a
	}
	if a == b {
		return a
	}
	if (a.op == OpNot && a.a[0] == b) || (b.op == OpNot && b.a[0] == a) {
		return c.T
	}
	if a.id > b.id {
		a, b = b, a
	}
	return c.mk(&Term{op: OpOr, w: 0, a: [3]*Term{a, b}, na: 2})
}

func (c *TermCtx) Implies(a, b *Term) *Term { return c.Or(c.Not(a), b) }
func (c *TermCtx) Iff(a, b *Term) *Term     { return c.Eq(a, b) }

func (c *TermCtx) Ite(cond, a, b *Term) *Term {
	if cond.IsTrue() {
		return a
	}
	if cond.IsFalse() {
		return b
	}
	if a == b {
		return a
	}
	if a.w != b.w {
		panic(fmt.Sprintf("ite width mismatch %d %d", a.w, b.w))
	}
	if a.w == 0 {
		if a.IsTrue() && b.IsFalse() {
			return cond
		}
		if a.IsFalse() && b.IsTrue() {
			return c.Not(cond)
		}
		if a.IsTrue() {
			return c.Or(cond, b)
		}
		if a.IsFalse() {
			return c.And(c.Not(cond), b)
		}
		if b.IsTrue() {
			return c.Or(c.Not(cond), a)
		}
		if b.IsFalse() {
			return c.And(cond, a)
		}
	}
	if cond.op == OpNot {
		return c.Ite(cond.a[0], b, a)
	}
	return c.narrow(c.mk(&Term{op: OpIte, w: a.w, a: [3]*Term{cond, a, b}, na: 3}))
}

func (c *TermCtx) Eq(a, b *Term) *Term {
	if a.w != b.w {
		panic(fmt.Sprintf("eq width mismatch %d %d (%s vs %s)", a.w, b.w, c.Str(a), c.Str(b)))
	}
	if a == b {
		return c.T
	}
	if a.IsConst() && b.IsConst() {
		return c.Bool(a.c == b.c)
	}
	if a.w == 0 {
		if a.IsTrue() {
			return b
		}
		if b.IsTrue() {
			return a
		}
		if a.IsFalse() {
			return c.Not(b)
		}
		if b.IsFalse() {
			return c.Not(a)
		}
	} else {
		if a.rhi < b.rlo || b.rhi < a.rlo {
			return c.F
		}
		// eq(zext(x), const) -> eq(x, const')
		if a.op == OpZext && b.IsConst() {
			return c.Eq(a.a[0], c.Const(a.a[0].w, b.c))
		}
		if b.op == OpZext && a.IsConst() {
			return c.Eq(b.a[0], c.Const(b.a[0].w, a.c))
		}
		if a.op == OpZext && b.op == OpZext {
			k := max(a.a[0].w, b.a[0].w)
			return c.Eq(c.Zext(a.a[0], k), c.Zext(b.a[0], k))
		}
		// small-range 64-bit operands: compare in 32 bits
		if a.w == 64 && a.rhi < 1<<31 && b.rhi < 1<<31 && (a.op == OpZext || b.op == OpZext) {
			return c.Eq(c.Extract(a, 31, 0), c.Extract(b, 31, 0))
		}
		// eq(ite(c,k1,k2), k) with constants
		if a.op == OpIte && b.IsConst() && a.a[1].IsConst() && a.a[2].IsConst() {
			return c.Ite(a.a[0], c.Bool(a.a[1].c == b.c), c.Bool(a.a[2].c == b.c))
		}
		if b.op == OpIte && a.IsConst() && b.a[1].IsConst() && b.a[2].IsConst() {
			return c.Ite(b.a[0], c.Bool(b.a[1].c == a.c), c.Bool(b.a[2].c == a.c))
		}
	}
	if a.id > b.id {
		a, b = b, a
	}
	return c.mk(&Term{op: OpEq, w: 0, a: [3]*Term{a, b}, na: 2})
}

func (c *TermCtx) bin(op Op, a, b *Term) *Term {
	if a.w != b.w {
		panic(fmt.Sprintf("binop %v width mismatch %d %d", opNames[op], a.w, b.w))
	}
	switch op {
	case OpAdd, OpMul, OpBAnd, OpBOr, OpBXor:
		// canonical operand order for commutative operators (constants last)
		if !b.IsConst() && (a.IsConst() || a.id > b.id) {
			a, b = b, a
		}
	}
	return c.mk(&Term{op: op, w: a.w, a: [3]*Term{a, b}, na: 2})
}

func (c *TermCtx) Add(a, b *Term) *Term {
	if a.IsConst() && b.IsConst() {
		return c.Const(a.w, a.c+b.c)
	}
	if a.IsConst() {
		a, b = b, a
	}
	// (x - y) + y = x
	if a.op == OpSub && a.a[1] == b {
		return a.a[0]
	}
	if b.op == OpSub && b.a[1] == a {
		return b.a[0]
	}
	// (x + k1) + (y - x)... not needed; ((x - y) + k) + y = x + k
	if a.op == OpAdd && a.a[1].IsConst() && a.a[0].op == OpSub && a.a[0].a[1] == b {
		return c.Add(a.a[0].a[0], a.a[1])
	}
	if b.op == OpAdd && b.a[1].IsConst() && b.a[0].op == OpSub && b.a[0].a[1] == a {
		return c.Add(b.a[0].a[0], b.a[1])
	}
	if b.IsConst() {
		if b.c == 0 {
			return a
		}
		// (x + k1) + k2
		if a.op == OpAdd && a.a[1].IsConst() {
			return c.Add(a.a[0], c.Const(a.w, a.a[1].c+b.c))
		}
		if a.op == OpSub && a.a[1].IsConst() {
			return c.Add(a.a[0], c.Const(a.w, b.c-a.a[1].c))
		}
		// a + (-k) with k <= a known: no wrap
		if a.w == 64 && b.c >= uint64(1)<<63 {
			k := -b.c
			if a.rlo >= k || c.knownLeq(c.Const(64, k), a) {
				t := c.bin(OpAdd, a, b)
				lo := uint64(0)
				if a.rlo >= k {
					lo = a.rlo - k
				}
				if a.rhi >= k && a.rhi-k < uint64(1)<<31 {
					t.rlo, t.rhi = lo, a.rhi-k
					kw := pickWidth(a.rhi)
					in := c.Sub(c.Extract(a, kw-1, 0), c.Const(kw, k))
					if in.w == kw {
						if in.op != OpConst && (in.rhi > t.rhi || in.rlo < t.rlo) {
							in.rlo, in.rhi = t.rlo, t.rhi
						}
						return c.Zext(in, 64)
					}
				}
				return t
			}
		}
	}
	return c.narrow(c.bin(OpAdd, a, b))
}

func (c *TermCtx) Sub(a, b *Term) *Term {
	if a.IsConst() && b.IsConst() {
		return c.Const(a.w, a.c-b.c)
	}
	if a == b {
		return c.Const(a.w, 0)
	}
	if b.IsConst() {
		if b.c == 0 {
			return a
		}
		return c.Add(a, c.Const(a.w, -b.c))
	}
	// (x + y) - x = y ; (x + y) - y = x
	if a.op == OpAdd {
		if a.a[0] == b {
			return a.a[1]
		}
		if a.a[1] == b {
			return a.a[0]
		}
		// (x + k) - y where y = (x + k2)
		if b.op == OpAdd && a.a[0] == b.a[0] && a.a[1].IsConst() && b.a[1].IsConst() {
			return c.Const(a.w, a.a[1].c-b.a[1].c)
		}
		if a.a[1].IsConst() && a.a[0] == b {
			return a.a[1]
		}
	}
	if b.op == OpAdd && b.a[0] == a && b.a[1].IsConst() {
		return c.Const(a.w, -b.a[1].c)
	}
	t := c.bin(OpSub, a, b)
	if a.rlo < b.rhi && c.knownLeq(b, a) {
		// no wrap below zero on this path
		if a.rhi-b.rlo < t.rhi && a.rhi >= b.rlo {
			t.rlo, t.rhi = 0, a.rhi-b.rlo
		}
	}
	return c.narrow(t)
}

func (c *TermCtx) Mul(a, b *Term) *Term {
	if a.IsConst() && b.IsConst() {
		return c.Const(a.w, a.c*b.c)
	}
	if a.IsConst() {
		a, b = b, a
	}
	if b.IsConst() {
		if b.c == 0 {
			return b
		}
		if b.c == 1 {
			return a
		}
	}
	return c.narrow(c.bin(OpMul, a, b))
}

// mulNoOverflowBy reports whether t is x*k (k const) with no unsigned overflow
// and below the sign bit.
func mulNoOverflowBy(t *Term, k uint64) (*Term, bool) {
	if t.op != OpMul || !t.a[1].IsConst() || t.a[1].c != k {
		return nil, false
	}
	h, l := bits.Mul64(t.a[0].rhi, k)
	if h != 0 || l > mask(t.w)>>1 {
		return nil, false
	}
	return t.a[0], true
}

func (c *TermCtx) UDiv(a, b *Term) *Term {
	if a.IsConst() && b.IsConst() && b.c != 0 {
		return c.Const(a.w, a.c/b.c)
	}
	if b.IsConst() && b.c == 1 {
		return a
	}
	if b.IsConst() {
		if x, ok := mulNoOverflowBy(a, b.c); ok {
			return x
		}
	}
	return c.narrow(c.bin(OpUDiv, a, b))
}

func (c *TermCtx) URem(a, b *Term) *Term {
	if a.IsConst() && b.IsConst() && b.c != 0 {
		return c.Const(a.w, a.c%b.c)
	}
	if b.IsConst() {
		if _, ok := mulNoOverflowBy(a, b.c); ok {
			return c.Const(a.w, 0)
		}
		if a.rhi < b.c {
			return a
		}
	}
	return c.narrow(c.bin(OpURem, a, b))
}

func (c *TermCtx) SDiv(a, b *Term) *Term {
	if a.IsConst() && b.IsConst() && b.c != 0 {
		x, y := sext64(a.c, a.w), sext64(b.c, b.w)
		if !(y == -1 && x == -1<<uint(a.w-1)) {
			return c.Const(a.w, uint64(x/y))
		}
	}
	if b.IsConst() && b.c == 1 {
		return a
	}
	sm := uint64(1) << uint(a.w-1)
	if b.IsConst() && b.c < sm {
		if x, ok := mulNoOverflowBy(a, b.c); ok {
			return x
		}
	}
	if a.rhi < sm && b.rhi < sm {
		return c.UDiv(a, b)
	}
	return c.bin(OpSDiv, a, b)
}

func (c *TermCtx) SRem(a, b *Term) *Term {
	if a.IsConst() && b.IsConst() && b.c != 0 {
		x, y := sext64(a.c, a.w), sext64(b.c, b.w)
		if y != -1 {
			return c.Const(a.w, uint64(x%y))
		}
		return c.Const(a.w, 0)
	}
	sm := uint64(1) << uint(a.w-1)
	if a.rhi < sm && b.rhi < sm {
		return c.URem(a, b)
	}
	return c.bin(OpSRem, a, b)
}

func (c *TermCtx) BAnd(a, b *Term) *Term {
	if a.IsConst() && b.IsConst() {
		return c.Const(a.w, a.c&b.c)
	}
	if a.IsConst() {
		a, b = b, a
	}
	if b.IsConst() {
		if b.c == 0 {
			return b
		}
		if b.c == mask(a.w) {
			return a
		}
		// mask covering the whole range of a
		if b.c&(b.c+1) == 0 && a.rhi <= b.c {
			return a
		}
	}
	if a == b {
		return a
	}
	return c.narrow(c.bin(OpBAnd, a, b))
}

func (c *TermCtx) BOr(a, b *Term) *Term {
	if a.IsConst() && b.IsConst() {
		return c.Const(a.w, a.c|b.c)
	}
	if a.IsConst() {
		a, b = b, a
	}
	if b.IsConst() && b.c == 0 {
		return a
	}
	if a == b {
		return a
	}
	return c.narrow(c.bin(OpBOr, a, b))
}

func (c *TermCtx) BXor(a, b *Term) *Term {
	if a.IsConst() && b.IsConst() {
		return c.Const(a.w, a.c^b.c)
	}
	if a.IsConst() {
		a, b = b, a
	}
	if b.IsConst() && b.c == 0 {
		return a
	}
	if b.IsConst() && b.c == mask(a.w) {
		return c.BNot(a)
	}
	return c.narrow(c.bin(OpBXor, a, b))
}

func (c *TermCtx) BNot(a *Term) *Term {
	if a.IsConst() {
		return c.Const(a.w, ^a.c)
	}
	if a.op == OpBNot {
		return a.a[0]
	}
	return c.mk(&Term{op: OpBNot, w: a.w, a: [3]*Term{a}, na: 1})
}

func (c *TermCtx) Neg(a *Term) *Term {
	if a.IsConst() {
		return c.Const(a.w, -a.c)
	}
	return c.mk(&Term{op: OpNeg, w: a.w, a: [3]*Term{a}, na: 1})
}

// Shifts: b has the same width as a (callers normalise); SMT semantics
// (shift >= width gives 0 / sign fill) coincide with Go's.
func (c *TermCtx) Shl(a, b *Term) *Term {
	if b.IsConst() {
		if b.c == 0 {
			return a
		}
		if b.c >= uint64(a.w) {
			return c.Const(a.w, 0)
		}
		if a.IsConst() {
			return c.Const(a.w, a.c<<b.c)
		}
	}
	return c.narrow(c.bin(OpShl, a, b))
}

func (c *TermCtx) LShr(a, b *Term) *Term {
	if b.IsConst() {
		if b.c == 0 {
			return a
		}
		if b.c >= uint64(a.w) {
			return c.Const(a.w, 0)
		}
		if a.IsConst() {
			return c.Const(a.w, a.c>>b.c)
		}
		// lshr(concat(h,l), |l|) = zext(h)
		if a.op == OpConcat && int(b.c) == a.a[1].w {
			return c.Zext(a.a[0], a.w)
		}
	}
	return c.bin(OpLShr, a, b)
}

func (c *TermCtx) AShr(a, b *Term) *Term {
	if a.rhi < uint64(1)<<uint(a.w-1) {
		return c.LShr(a, b)
	}
	if a.IsConst() && b.IsConst() {
		s := b.c
		if s >= uint64(a.w) {
			s = uint64(a.w - 1)
		}
		return c.Const(a.w, uint64(sext64(a.c, a.w)>>s))
	}
	if b.IsConst() && b.c == 0 {
		return a
	}
	return c.bin(OpAShr, a, b)
}

func (c *TermCtx) Ult(a, b *Term) *Term {
	if a.w != b.w {
		panic("ult width")
	}
	if a.rhi < b.rlo {
		return c.T
	}
	if a.rlo >= b.rhi {
		return c.F
	}
	if a == b {
		return c.F
	}
	if c.knownLeq(b, a) {
		return c.F
	}
	if a.op == OpZext && b.op == OpZext {
		k := max(a.a[0].w, b.a[0].w)
		return c.Ult(c.Zext(a.a[0], k), c.Zext(b.a[0], k))
	}
	if a.op == OpZext && b.IsConst() && b.c <= mask(a.a[0].w) {
		return c.Ult(a.a[0], c.Const(a.a[0].w, b.c))
	}
	if b.op == OpZext && a.IsConst() && a.c <= mask(b.a[0].w) {
		return c.Ult(c.Const(b.a[0].w, a.c), b.a[0])
	}
	if a.w == 64 && a.rhi < 1<<31 && b.rhi < 1<<31 && (a.op == OpZext || b.op == OpZext) {
		return c.Ult(c.Extract(a, 31, 0), c.Extract(b, 31, 0))
	}
	return c.mk(&Term{op: OpUlt, w: 0, a: [3]*Term{a, b}, na: 2})
}

func (c *TermCtx) Ule(a, b *Term) *Term {
	if a.w != b.w {
		panic("ule width")
	}
	if a.rhi <= b.rlo {
		return c.T
	}
	if a.rlo > b.rhi {
		return c.F
	}
	if a == b {
		return c.T
	}
	return c.Not(c.Ult(b, a))
}

func (c *TermCtx) Slt(a, b *Term) *Term {
	sm := uint64(1) << uint(a.w-1)
	if a.rhi < sm && b.rhi < sm {
		return c.Ult(a, b)
	}
	if a.IsConst() && b.IsConst() {
		return c.Bool(sext64(a.c, a.w) < sext64(b.c, b.w))
	}
	if a == b {
		return c.F
	}
	// both known negative
	if a.rlo >= sm && b.rlo >= sm {
		return c.Ult(a, b)
	}
	if a.rlo >= sm && b.rhi < sm {
		return c.T
	}
	if a.rhi < sm && b.rlo >= sm {
		return c.F
	}
	return c.mk(&Term{op: OpSlt, w: 0, a: [3]*Term{a, b}, na: 2})
}

func (c *TermCtx) Sle(a, b *Term) *Term { return c.Not(c.Slt(b, a)) }

func (c *TermCtx) Extract(a *Term, hi, lo int) *Term {
	if lo == 0 && hi == a.w-1 {
		return a
	}
	w := hi - lo + 1
	if a.IsConst() {
		return c.Const(w, a.c>>uint(lo))
	}
	switch a.op {
	case OpZext:
		iw := a.a[0].w
		if hi < iw {
			return c.Extract(a.a[0], hi, lo)
		}
		if lo >= iw {
			return c.Const(w, 0)
		}
		if lo == 0 {
			return c.Zext(a.a[0], w)
		}
	case OpSext:
		iw := a.a[0].w
		if hi < iw {
			return c.Extract(a.a[0], hi, lo)
		}
		if lo == 0 {
			return c.Sext(a.a[0], w)
		}
	case OpConcat:
		lw := a.a[1].w
		if hi < lw {
			return c.Extract(a.a[1], hi, lo)
		}
		if lo >= lw {
			return c.Extract(a.a[0], hi-lw, lo-lw)
		}
	case OpExtract:
		return c.Extract(a.a[0], hi+a.lo, lo+a.lo)
	case OpBAnd, OpBOr, OpBXor:
		return c.mkBin(a.op, c.Extract(a.a[0], hi, lo), c.Extract(a.a[1], hi, lo))
	case OpAdd, OpSub, OpMul:
		if lo == 0 {
			return c.mkBin(a.op, c.Extract(a.a[0], hi, 0), c.Extract(a.a[1], hi, 0))
		}
	case OpIte:
		return c.Ite(a.a[0], c.Extract(a.a[1], hi, lo), c.Extract(a.a[2], hi, lo))
	case OpLShr:
		if a.a[1].IsConst() && hi+int(a.a[1].c) < a.w {
			return c.Extract(a.a[0], hi+int(a.a[1].c), lo+int(a.a[1].c))
		}
	case OpShl:
		if a.a[1].IsConst() {
			s := int(a.a[1].c)
			if lo >= s {
				return c.Extract(a.a[0], hi-s, lo-s)
			}
			if hi < s {
				return c.Const(w, 0)
			}
			if lo == 0 {
				return c.Shl(c.Extract(a.a[0], hi, 0), c.Const(w, uint64(s)))
			}
		}
	}
	return c.mk(&Term{op: OpExtract, w: w, a: [3]*Term{a}, na: 1, hi: hi, lo: lo})
}

func (c *TermCtx) mkBin(op Op, a, b *Term) *Term {
	switch op {
	case OpBAnd:
		return c.BAnd(a, b)
	case OpBOr:
		return c.BOr(a, b)
	case OpBXor:
		return c.BXor(a, b)
	case OpAdd:
		return c.Add(a, b)
	case OpSub:
		return c.Sub(a, b)
	case OpMul:
		return c.Mul(a, b)
	}
	panic("mkBin")
}

func (c *TermCtx) Concat(hi, lo *Term) *Term {
	if hi.IsConst() && lo.IsConst() {
		return c.Const(hi.w+lo.w, hi.c<<uint(lo.w)|lo.c)
	}
	if hi.IsConst() && hi.c == 0 {
		return c.Zext(lo, hi.w+lo.w)
	}
	// concat(extract(x,h,m+1), extract(x,m,l)) = extract(x,h,l)
	if hi.op == OpExtract && lo.op == OpExtract && hi.a[0] == lo.a[0] && hi.lo == lo.hi+1 {
		return c.Extract(hi.a[0], hi.hi, lo.lo)
	}
	return c.mk(&Term{op: OpConcat, w: hi.w + lo.w, a: [3]*Term{hi, lo}, na: 2})
}

func (c *TermCtx) Zext(a *Term, w int) *Term {
	if w == a.w {
		return a
	}
	if w < a.w {
		return c.Extract(a, w-1, 0)
	}
	if a.IsConst() {
		return c.Const(w, a.c)
	}
	if a.op == OpZext {
		return c.Zext(a.a[0], w)
	}
	return c.mk(&Term{op: OpZext, w: w, a: [3]*Term{a}, na: 1})
}

func (c *TermCtx) Sext(a *Term, w int) *Term {
	if w == a.w {
		return a
	}
	if w < a.w {
		return c.Extract(a, w-1, 0)
	}
	if a.IsConst() {
		return c.Const(w, uint64(sext64(a.c, a.w)))
	}
	if a.rhi < uint64(1)<<uint(a.w-1) {
		return c.Zext(a, w)
	}
	return c.mk(&Term{op: OpSext, w: w, a: [3]*Term{a}, na: 1})
}

// SelectBase reads element idx (64-bit) of the symbolic base array name.
func (c *TermCtx) SelectBase(name string, elemW int, idx *Term) *Term {
	// arrays are indexed by the low 32 bits (every in-range index is < 2^31; reads are
	// only built behind a bounds obligation or a bounds guard)
	if idx.w == 64 {
		idx = c.Extract(idx, 31, 0)
	}
	return c.mk(&Term{op: OpSelect, w: elemW, name: name, a: [3]*Term{idx}, na: 1})
}

// ---------- printing ----------

func bvLit(w int, v uint64) string {
	if w%4 == 0 {
		return fmt.Sprintf("#x%0*x", w/4, v&mask(w))
	}
	return fmt.Sprintf("#b%0*b", w, v&mask(w))
}

func sortStr(w int) string {
	if w == 0 {
		return "Bool"
	}
	return fmt.Sprintf("(_ BitVec %d)", w)
}

// Script renders the SMT-LIB2 text asserting all roots. It returns the text
// and the list of leaf terms (vars, selects) for model extraction.
func (c *TermCtx) Script(roots []*Term) (string, []*Term, func(*Term) string) {
	var sb strings.Builder
	seen := map[int]bool{}
	var order []*Term
	var visit func(t *Term)
	visit = func(t *Term) {
		if seen[t.id] {
			return
		}
		seen[t.id] = true
		for i := 0; i < t.na; i++ {
			visit(t.a[i])
		}
		order = append(order, t)
	}
	for _, r := range roots {
		visit(r)
	}
	// count uses
	uses := map[int]int{}
	for _, t := range order {
		for i := 0; i < t.na; i++ {
			uses[t.a[i].id]++
		}
	}
	vars := map[string]int{}
	arrs := map[string]int{}
	var leaves []*Term
	for _, t := range order {
		switch t.op {
		case OpVar:
			if _, ok := vars[t.name]; !ok {
				vars[t.name] = t.w
				leaves = append(leaves, t)
			}
		case OpSelect:
			arrs[t.name] = t.w
			leaves = append(leaves, t)
		}
	}
	vn := make([]string, 0, len(vars))
	for n := range vars {
		vn = append(vn, n)
	}
	sort.Strings(vn)
	for _, n := range vn {
		fmt.Fprintf(&sb, "(declare-const %s %s)\n", n, sortStr(vars[n]))
	}
	an := make([]string, 0, len(arrs))
	for n := range arrs {
		an = append(an, n)
	}
	sort.Strings(an)
	for _, n := range an {
		fmt.Fprintf(&sb, "(declare-const %s (Array (_ BitVec 32) (_ BitVec %d)))\n", n, arrs[n])
	}
	named := map[int]bool{}
	var expr func(t *Term) string
	var ref func(t *Term) string
	ref = func(t *Term) string {
		if named[t.id] {
			return fmt.Sprintf("t%d", t.id)
		}
		return expr(t)
	}
	expr = func(t *Term) string {
		switch t.op {
		case OpConst:
			if t.w == 0 {
				if t.c != 0 {
					return "true"
				}
				return "false"
			}
			return bvLit(t.w, t.c)
		case OpVar:
			return t.name
		case OpSelect:
			return fmt.Sprintf("(select %s %s)", t.name, ref(t.a[0]))
		case OpExtract:
			return fmt.Sprintf("((_ extract %d %d) %s)", t.hi, t.lo, ref(t.a[0]))
		case OpZext:
			return fmt.Sprintf("((_ zero_extend %d) %s)", t.w-t.a[0].w, ref(t.a[0]))
		case OpSext:
			return fmt.Sprintf("((_ sign_extend %d) %s)", t.w-t.a[0].w, ref(t.a[0]))
		default:
			s := "(" + opNames[t.op]
			for i := 0; i < t.na; i++ {
				s += " " + ref(t.a[i])
			}
			return s + ")"
		}
	}
	for _, t := range order {
		if t.na == 0 {
			continue
		}
		// name shared or large nodes
		if uses[t.id] > 1 || t.op == OpIte || t.op == OpSelect {
			fmt.Fprintf(&sb, "(define-fun t%d () %s %s)\n", t.id, sortStr(t.w), expr(t))
			named[t.id] = true
		}
	}
	for _, r := range roots {
		fmt.Fprintf(&sb, "(assert %s)\n", ref(r))
	}
	return sb.String(), leaves, ref
}

// Emitter prints term definitions incrementally (one define-fun per node) for a
// solver session that keeps them across queries.
type Emitter struct {
	defined  map[int]bool
	declared map[string]bool
	Leaves   []*Term
}

func NewEmitter() *Emitter {
	return &Emitter{defined: map[int]bool{}, declared: map[string]bool{}}
}

func (e *Emitter) Ref(t *Term) string {
	switch t.op {
	case OpConst:
		if t.w == 0 {
			if t.c != 0 {
				return "true"
			}
			return "false"
		}
		return bvLit(t.w, t.c)
	case OpVar:
		return t.name
	}
	return fmt.Sprintf("t%d", t.id)
}

// Emit writes the declarations/definitions t needs that were not emitted before.
func (e *Emitter) Emit(sb *strings.Builder, t *Term) {
	if e.defined[t.id] {
		return
	}
	e.defined[t.id] = true
	for i := 0; i < t.na; i++ {
		e.Emit(sb, t.a[i])
	}
	switch t.op {
	case OpConst:
		return
	case OpVar:
		if !e.declared[t.name] {
			e.declared[t.name] = true
			fmt.Fprintf(sb, "(declare-const %s %s)\n", t.name, sortStr(t.w))
			e.Leaves = append(e.Leaves, t)
		}
		return
	case OpSelect:
		if !e.declared[t.name] {
			e.declared[t.name] = true
			fmt.Fprintf(sb, "(declare-const %s (Array (_ BitVec 32) (_ BitVec %d)))\n", t.name, t.w)
		}
		e.Leaves = append(e.Leaves, t)
		fmt.Fprintf(sb, "(define-fun t%d () %s (select %s %s))\n", t.id, sortStr(t.w), t.name, e.Ref(t.a[0]))
		return
	}
	var body string
	switch t.op {
	case OpExtract:
		body = fmt.Sprintf("((_ extract %d %d) %s)", t.hi, t.lo, e.Ref(t.a[0]))
	case OpZext:
		body = fmt.Sprintf("((_ zero_extend %d) %s)", t.w-t.a[0].w, e.Ref(t.a[0]))
	case OpSext:
		body = fmt.Sprintf("((_ sign_extend %d) %s)", t.w-t.a[0].w, e.Ref(t.a[0]))
	default:
		body = "(" + opNames[t.op]
		for i := 0; i < t.na; i++ {
			body += " " + e.Ref(t.a[i])
		}
		body += ")"
	}
	fmt.Fprintf(sb, "(define-fun t%d () %s %s)\n", t.id, sortStr(t.w), body)
}

// Str renders a term compactly for diagnostics (depth limited).
func (c *TermCtx) Str(t *Term) string { return termStr(t, 6) }

func termStr(t *Term, d int) string {
	if d == 0 {
		return "…"
	}
	switch t.op {
	case OpConst:
		if t.w == 0 {
			return fmt.Sprint(t.c != 0)
		}
		return fmt.Sprintf("%d:%d", t.c, t.w)
	case OpVar:
		return t.name
	case OpSelect:
		return fmt.Sprintf("%s[%s]", t.name, termStr(t.a[0], d-1))
	case OpExtract:
		return fmt.Sprintf("ext[%d:%d](%s)", t.hi, t.lo, termStr(t.a[0], d-1))
	case OpZext:
		return fmt.Sprintf("zx%d(%s)", t.w, termStr(t.a[0], d-1))
	case OpSext:
		return fmt.Sprintf("sx%d(%s)", t.w, termStr(t.a[0], d-1))
	}
	s := "(" + opNames[t.op]
	for i := 0; i < t.na; i++ {
		s += " " + termStr(t.a[i], d-1)
	}
	return s + ")"
}

// ---------- concrete evaluation ----------

type Model struct {
	Vars   map[string]uint64
	Arrays map[string]map[uint64]uint64
	// Total: unknown variables / array cells evaluate to 0 instead of failing
	Total bool
}

func NewModel() *Model {
	return &Model{Vars: map[string]uint64{}, Arrays: map[string]map[uint64]uint64{}}
}

// Eval evaluates t under m. ok=false if the model does not determine t.
func (m *Model) Eval(t *Term) (uint64, bool) {
	memo := map[int]uint64{}
	okAll := true
	var ev func(t *Term) uint64
	ev = func(t *Term) uint64 {
		if v, ok := memo[t.id]; ok {
			return v
		}
		var r uint64
		w := t.w
		A := func(i int) uint64 { return ev(t.a[i]) }
		switch t.op {
		case OpConst:
			r = t.c
		case OpVar:
			v, ok := m.Vars[t.name]
			if !ok && !m.Total {
				okAll = false
			}
			r = v
		case OpSelect:
			idx := A(0)
			arr := m.Arrays[t.name]
			v, ok := arr[idx]
			if !ok && !m.Total {
				okAll = false
			}
			r = v
		case OpNot:
			r = 1 - A(0)
		case OpAnd:
			if A(0) == 0 {
				r = 0
			} else {
				r = A(1)
			}
		case OpOr:
			if A(0) == 1 {
				r = 1
			} else {
				r = A(1)
			}
		case OpIte:
			if A(0) != 0 {
				r = A(1)
			} else {
				r = A(2)
			}
		case OpEq:
			r = b2u(A(0) == A(1))
		case OpAdd:
			r = A(0) + A(1)
		case OpSub:
			r = A(0) - A(1)
		case OpMul:
			r = A(0) * A(1)
		case OpUDiv:
			if A(1) == 0 {
				r = mask(w)
			} else {
				r = A(0) / A(1)
			}
		case OpURem:
			if A(1) == 0 {
				r = A(0)
			} else {
				r = A(0) % A(1)
			}
		case OpSDiv:
			x, y := sext64(A(0), w), sext64(A(1), w)
			if y == 0 {
				if x >= 0 {
					r = mask(w)
				} else {
					r = 1
				}
			} else if y == -1 {
				r = uint64(-x)
			} else {
				r = uint64(x / y)
			}
		case OpSRem:
			x, y := sext64(A(0), w), sext64(A(1), w)
			if y == 0 {
				r = uint64(x)
			} else if y == -1 {
				r = 0
			} else {
				r = uint64(x % y)
			}
		case OpBAnd:
			r = A(0) & A(1)
		case OpBOr:
			r = A(0) | A(1)
		case OpBXor:
			r = A(0) ^ A(1)
		case OpBNot:
			r = ^A(0)
		case OpNeg:
			r = -A(0)
		case OpShl:
			if A(1) >= uint64(w) {
				r = 0
			} else {
				r = A(0) << A(1)
			}
		case OpLShr:
			if A(1) >= uint64(w) {
				r = 0
			} else {
				r = A(0) >> A(1)
			}
		case OpAShr:
			s := A(1)
			if s >= uint64(w) {
				s = uint64(w - 1)
			}
			r = uint64(sext64(A(0), w) >> s)
		case OpUlt:
			r = b2u(A(0) < A(1))
		case OpUle:
			r = b2u(A(0) <= A(1))
		case OpSlt:
			r = b2u(sext64(A(0), t.a[0].w) < sext64(A(1), t.a[0].w))
		case OpSle:
			r = b2u(sext64(A(0), t.a[0].w) <= sext64(A(1), t.a[0].w))
		case OpExtract:
			r = A(0) >> uint(t.lo)
		case OpConcat:
			r = A(0)<<uint(t.a[1].w) | A(1)
		case OpZext:
			r = A(0)
		case OpSext:
			r = uint64(sext64(A(0), t.a[0].w))
		default:
			panic("eval: op")
		}
		if w > 0 {
			r &= mask(w)
		}
		memo[t.id] = r
		return r
	}
	v := ev(t)
	return v, okAll
}

func b2u(b bool) uint64 {
	if b {
		return 1
	}
	return 0
}
