package main

// Symbolic interpreter for go/ssa.

import (
	"os"
	"fmt"
	"go/constant"
	"go/token"
	"go/types"
	"strings"

	"golang.org/x/tools/go/ssa"
)

type deferred struct {
	fn   Value
	args []Value
	pos  token.Pos
}

type frame struct {
	r        *Run
	fn       *ssa.Function
	env      map[ssa.Value]Value
	block    *ssa.BasicBlock
	prev     *ssa.BasicBlock
	defers   []deferred
	result   Value
	loopCnt  map[*ssa.BasicBlock]int
	loopSnap map[*ssa.BasicBlock]int
	caller   *frame
	callPos  token.Pos
	curPos   token.Pos
}

// pathAbort unwinds a simulated goroutine when the path ends.
type pathAbort struct{ reason string }

func (r *Run) abort(reason string) {
	panic(pathAbort{reason})
}

func (r *Run) unsupported(what string) {
	r.res.Unsupported = append(r.res.Unsupported, what+" @ "+r.where())
	r.res.Outcome = "unsupported"
	r.abort("unsupported: " + what)
}

func (r *Run) where() string {
	g := r.curG()
	if g == nil || g.fr == nil {
		return "?"
	}
	return r.framePos(g.fr)
}

func (r *Run) framePos(fr *frame) string {
	var parts []string
	for f := fr; f != nil && len(parts) < 6; f = f.caller {
		pos := f.curPos
		parts = append(parts, fmt.Sprintf("%s(%s)", f.fn.Name(), r.eng.posStr(pos)))
	}
	return strings.Join(parts, " < ")
}

func (e *Engine) posStr(p token.Pos) string {
	if !p.IsValid() {
		return "-"
	}
	ps := e.fset.Position(p)
	fn := ps.Filename
	if i := strings.LastIndex(fn, "/"); i >= 0 {
		fn = fn[i+1:]
	}
	return fmt.Sprintf("%s:%d", fn, ps.Line)
}

// goPanic: the interpreted program panics for certain on this (feasible) path.
func (r *Run) goPanic(msg string) {
	r.violation("go-panic", "runtime panic: "+msg, nil)
	r.res.Outcome = "panic"
	r.abort("panic: " + msg)
}

func (fr *frame) get(v ssa.Value) Value {
	switch v := v.(type) {
	case *ssa.Const:
		return fr.r.constValue(v)
	case *ssa.Global:
		return Ptr{slot: fr.r.globalSlot(v)}
	case *ssa.Function:
		return v
	case *ssa.Builtin:
		return v
	case nil:
		return nil
	}
	if x, ok := fr.env[v]; ok {
		return x
	}
	fr.r.unsupported(fmt.Sprintf("value %s (%T) not in env", v.Name(), v))
	return nil
}

func (r *Run) constValue(c *ssa.Const) Value {
	t := c.Type()
	if c.Value == nil {
		return r.zero(t)
	}
	if b, ok := t.Underlying().(*types.Basic); ok {
		switch {
		case b.Info()&types.IsBoolean != 0:
			return r.ctx.Bool(constant.BoolVal(c.Value))
		case b.Info()&types.IsString != 0:
			return mkStr(constant.StringVal(c.Value))
		case b.Info()&types.IsFloat != 0:
			f, _ := constant.Float64Val(c.Value)
			return Float{f: f}
		case b.Info()&types.IsInteger != 0:
			w, _, _ := basicWidth(b)
			if u, ok := constant.Uint64Val(c.Value); ok {
				return r.ctx.Const(w, u)
			}
			i, _ := constant.Int64Val(c.Value)
			return r.ctx.Const(w, uint64(i))
		}
	}
	if _, ok := t.Underlying().(*types.TypeParam); ok {
		r.unsupported("const of type parameter")
	}
	r.unsupported(fmt.Sprintf("const %v of type %v", c.Value, t))
	return nil
}

func (r *Run) globalSlot(g *ssa.Global) *Slot {
	if s, ok := r.globals[g]; ok {
		return s
	}
	et := g.Type().(*types.Pointer).Elem()
	s := r.newSlot(r.zero(et), g.String())
	s.noRace = true
	s.wG, s.wC = 0, 0
	r.globals[g] = s
	if init, ok := r.eng.globalInit[g.String()]; ok {
		s.v = init(r)
	}
	return s
}

// ---------- calls ----------

var traceCalls = os.Getenv("VERIF_TRACE_CALLS") != ""

func (r *Run) fnName(fn *ssa.Function) string {
	if o := fn.Origin(); o != nil {
		return o.String()
	}
	return fn.String()
}

func (r *Run) call(caller *frame, pos token.Pos, fnv Value, args []Value) Value {
	switch f := fnv.(type) {
	case *ssa.Function:
		return r.callFunc(caller, pos, f, args, nil)
	case *Closure:
		return r.callFunc(caller, pos, f.fn, args, f.env)
	case *ssa.Builtin:
		return r.callBuiltin(caller, f, args)
	case *BoundIntrinsic:
		return r.callBoundIntrinsic(caller, f, args)
	case nil:
		r.goPanic("call of nil func")
	}
	r.unsupported(fmt.Sprintf("call of %T", fnv))
	return nil
}

func (r *Run) callFunc(caller *frame, pos token.Pos, fn *ssa.Function, args []Value, env []Value) Value {
	name := r.fnName(fn)
	if fn.Name() == "init" && caller != nil && caller.fn.Name() == "init" && fn.Pkg != caller.fn.Pkg {
		return nil // initialisers of imported packages are not executed (see runInits)
	}
	if in, ok := intrinsics[name]; ok {
		if caller != nil {
			caller.curPos = pos
		}
		return in(r, caller, args)
	}
	if fn.Blocks == nil {
		r.unsupported("external function without body: " + name)
	}
	if traceCalls && r.concrete != nil && fn.Pkg == r.eng.pkg {
		var as []string
		for _, a := range args {
			if t, ok := a.(*Term); ok && t.IsConst() {
				as = append(as, fmt.Sprint(t.c))
			} else if sv, ok := a.(SliceVal); ok && sv.len != nil && sv.len.IsConst() {
				as = append(as, fmt.Sprintf("[]len=%d", sv.len.c))
			} else {
				as = append(as, fmt.Sprintf("%T", a))
			}
		}
		fmt.Printf("    call g%d %s(%s)\n", r.curG().id, name, strings.Join(as, ","))
	}
	r.depth++
	if r.depth > 200 {
		r.unsupported("call depth > 200")
	}
	fr := &frame{r: r, fn: fn, env: make(map[ssa.Value]Value, 16), caller: caller, callPos: pos}
	if caller != nil {
		caller.curPos = pos
	}
	for i, p := range fn.Params {
		fr.env[p] = args[i]
	}
	for i, fv := range fn.FreeVars {
		fr.env[fv] = env[i]
	}
	g := r.curG()
	saved := g.fr
	g.fr = fr
	r.runFrame(fr)
	g.fr = saved
	r.depth--
	return fr.result
}

func (r *Run) runFrame(fr *frame) {
	fr.block = fr.fn.Blocks[0]
	st := r.eng.fnStat(fr.fn)
	for fr.block != nil {
		b := fr.block
		// phis first (parallel assignment)
		i := 0
		if fr.prev != nil {
			var vals []Value
			var phis []*ssa.Phi
			for ; i < len(b.Instrs); i++ {
				phi, ok := b.Instrs[i].(*ssa.Phi)
				if !ok {
					break
				}
				for pi, pred := range b.Preds {
					if pred == fr.prev {
						vals = append(vals, fr.get(phi.Edges[pi]))
						break
					}
				}
				phis = append(phis, phi)
			}
			for k, phi := range phis {
				fr.env[phi] = vals[k]
			}
		}
		next := (*ssa.BasicBlock)(nil)
		jumped := false
		for ; i < len(b.Instrs); i++ {
			instr := b.Instrs[i]
			r.steps++
			if st != nil {
				st.instrs++
			}
			if r.steps > r.eng.maxSteps {
				r.cut("step-limit", false)
			}
			if p := instr.Pos(); p.IsValid() {
				fr.curPos = p
			}
			switch in := instr.(type) {
			case *ssa.If:
				c := fr.get(in.Cond).(*Term)
				var taken bool
				if c.IsConst() {
					taken = c.IsTrue()
				} else {
					taken = r.branch(c)
				}
				if taken {
					next = b.Succs[0]
				} else {
					next = b.Succs[1]
				}
				jumped = true
			case *ssa.Jump:
				next = b.Succs[0]
				jumped = true
			case *ssa.Return:
				switch len(in.Results) {
				case 0:
				case 1:
					fr.result = fr.get(in.Results[0])
				default:
					tu := make(Tuple, len(in.Results))
					for k, x := range in.Results {
						tu[k] = fr.get(x)
					}
					fr.result = tu
				}
				fr.block = nil
				return
			case *ssa.Panic:
				x := fr.get(in.X)
				r.goPanic(fmt.Sprintf("explicit panic(%s)", r.show(x)))
			default:
				r.visit(fr, instr)
			}
			if jumped {
				break
			}
		}
		if !jumped {
			r.unsupported("block fell through")
		}
		// loop unwinding accounting on back edges
		if next.Index <= b.Index {
			if fr.loopCnt == nil {
				fr.loopCnt = map[*ssa.BasicBlock]int{}
				fr.loopSnap = map[*ssa.BasicBlock]int{}
			}
			if r.symBranches > fr.loopSnap[next] {
				fr.loopCnt[next]++
				if r.loopBound > 0 && fr.loopCnt[next] > r.loopBound {
					r.cutLoop(fr, next)
				}
			}
			fr.loopSnap[next] = r.symBranches
		}
		fr.prev, fr.block = b, next
	}
}

func (r *Run) visit(fr *frame, instr ssa.Instruction) {
	c := r.ctx
	switch in := instr.(type) {
	case *ssa.DebugRef:
	case *ssa.Alloc:
		et := in.Type().Underlying().(*types.Pointer).Elem()
		fr.env[in] = Ptr{slot: r.newSlot(r.zero(et), in.Comment)}
	case *ssa.UnOp:
		fr.env[in] = r.unop(fr, in, fr.get(in.X))
	case *ssa.BinOp:
		fr.env[in] = r.binop(in.Op, in.X.Type(), in.Y.Type(), fr.get(in.X), fr.get(in.Y))
	case *ssa.Call:
		fnv, args := r.prepareCall(fr, &in.Call)
		fr.env[in] = r.call(fr, in.Pos(), fnv, args)
	case *ssa.ChangeInterface:
		fr.env[in] = fr.get(in.X)
	case *ssa.ChangeType:
		fr.env[in] = fr.get(in.X)
	case *ssa.Convert:
		fr.env[in] = r.conv(in.Type(), in.X.Type(), fr.get(in.X))
	case *ssa.MultiConvert:
		fr.env[in] = r.conv(in.Type(), in.X.Type(), fr.get(in.X))
	case *ssa.SliceToArrayPointer:
		s := fr.get(in.X).(SliceVal)
		n := int(in.Type().Underlying().(*types.Pointer).Elem().Underlying().(*types.Array).Len())
		if s.slot == nil {
			if n == 0 {
				fr.env[in] = Ptr{}
				break
			}
			r.goPanic("slice to array pointer conversion of nil slice")
		}
		r.obligation("slice-to-array-len", c.Sle(c.Const(64, uint64(n)), s.len), "cannot convert slice to array pointer: length too short")
		fr.env[in] = Ptr{slot: s.slot, path: s.path, winOff: s.off, winN: n}
	case *ssa.MakeInterface:
		fr.env[in] = Iface{t: in.X.Type(), v: fr.get(in.X)}
	case *ssa.Extract:
		fr.env[in] = fr.get(in.Tuple).(Tuple)[in.Index]
	case *ssa.Slice:
		fr.env[in] = r.sliceOp(fr, in)
	case *ssa.RunDefers:
		r.runDefers(fr)
	case *ssa.Send:
		ch, _ := fr.get(in.Chan).(*Chan)
		r.chanSend(ch, fr.get(in.X))
	case *ssa.Store:
		r.store(fr.get(in.Addr).(Ptr), fr.get(in.Val))
	case *ssa.Defer:
		fnv, args := r.prepareCall(fr, &in.Call)
		fr.defers = append(fr.defers, deferred{fn: fnv, args: args, pos: in.Pos()})
	case *ssa.Go:
		fnv, args := r.prepareCall(fr, &in.Call)
		r.spawn(fr, in.Pos(), fnv, args)
	case *ssa.MakeChan:
		n := r.concreteInt(r.toInt64(fr.get(in.Size), in.Size.Type()), "chan size")
		fr.env[in] = r.newChan(n, in.Type().Underlying().(*types.Chan).Elem())
	case *ssa.MakeSlice:
		et := in.Type().Underlying().(*types.Slice).Elem()
		ln := r.toInt64(fr.get(in.Len), in.Len.Type())
		cp := r.toInt64(fr.get(in.Cap), in.Cap.Type())
		r.obligation("makeslice-len", c.And(c.Sle(c.Const(64, 0), ln), c.Sle(ln, cp)), "makeslice: len out of range")
		fr.env[in] = r.makeSlice(et, ln, cp)
	case *ssa.MakeMap:
		mt := in.Type().Underlying().(*types.Map)
		fr.env[in] = &MapVal{kt: mt.Key(), vt: mt.Elem()}
	case *ssa.MakeClosure:
		cl := &Closure{fn: in.Fn.(*ssa.Function)}
		for _, b := range in.Bindings {
			cl.env = append(cl.env, fr.get(b))
		}
		fr.env[in] = cl
	case *ssa.Range:
		x := fr.get(in.X)
		switch m := x.(type) {
		case *MapVal:
			it := &MapIter{m: m}
			if m != nil {
				it.keys = append([]Value(nil), m.keys...)
				it.vals = append([]Value(nil), m.vals...)
			}
			fr.env[in] = it
		default:
			r.unsupported(fmt.Sprintf("range over %T", x))
		}
	case *ssa.Next:
		it := fr.get(in.Iter).(*MapIter)
		if it.pos < len(it.keys) {
			fr.env[in] = Tuple{c.T, it.keys[it.pos], it.vals[it.pos]}
			it.pos++
		} else {
			fr.env[in] = Tuple{c.F, nil, nil}
		}
	case *ssa.FieldAddr:
		p := fr.get(in.X).(Ptr)
		if p.slot == nil {
			r.goPanic("nil pointer dereference (field address)")
		}
		fr.env[in] = Ptr{slot: p.slot, path: appendPath(p.path, pathElem{field: in.Field})}
	case *ssa.Field:
		fr.env[in] = fr.get(in.X).(*Struct).f[in.Field]
	case *ssa.IndexAddr:
		idx := r.toInt64(fr.get(in.Index), in.Index.Type())
		switch x := fr.get(in.X).(type) {
		case SliceVal:
			r.obligation("index", c.And(c.Sle(c.Const(64, 0), idx), c.Slt(idx, r.sliceLen(x))), "index out of range")
			if x.slot == nil {
				r.goPanic("index of nil slice")
			}
			fr.env[in] = Ptr{slot: x.slot, path: appendPath(x.path, pathElem{idx: c.Add(x.off, idx)})}
		case Ptr: // pointer to array
			if x.slot == nil {
				r.goPanic("nil pointer dereference (index address)")
			}
			n := in.X.Type().Underlying().(*types.Pointer).Elem().Underlying().(*types.Array).Len()
			r.obligation("index", c.And(c.Sle(c.Const(64, 0), idx), c.Slt(idx, c.Const(64, uint64(n)))), "index out of range")
			if x.winOff != nil {
				fr.env[in] = Ptr{slot: x.slot, path: appendPath(x.path, pathElem{idx: c.Add(x.winOff, idx)})}
			} else {
				fr.env[in] = Ptr{slot: x.slot, path: appendPath(x.path, pathElem{idx: idx})}
			}
		default:
			r.unsupported(fmt.Sprintf("IndexAddr on %T", x))
		}
	case *ssa.Index:
		idx := r.toInt64(fr.get(in.Index), in.Index.Type())
		switch x := fr.get(in.X).(type) {
		case *ArrVal:
			r.obligation("index", c.And(c.Sle(c.Const(64, 0), idx), c.Slt(idx, x.n)), "index out of range")
			fr.env[in] = r.arrSelect(x.node, idx)
		case *GArr:
			i := r.concreteInt(idx, "index of array value")
			if i < 0 || i >= len(x.e) {
				r.goPanic("index out of range")
			}
			fr.env[in] = x.e[i]
		case Str:
			if x.sym {
				r.unsupported("index of symbolic string")
			}
			i := r.concreteInt(idx, "string index")
			if i < 0 || i >= len(x.s) {
				r.goPanic("string index out of range")
			}
			fr.env[in] = c.Const(8, uint64(x.s[i]))
		default:
			r.unsupported(fmt.Sprintf("Index on %T", x))
		}
	case *ssa.Lookup:
		switch x := fr.get(in.X).(type) {
		case *MapVal:
			v, ok := r.mapLookup(x, fr.get(in.Index))
			if v == nil {
				v = r.zero(in.X.Type().Underlying().(*types.Map).Elem())
			}
			if in.CommaOk {
				fr.env[in] = Tuple{v, c.Bool(ok)}
			} else {
				fr.env[in] = v
			}
		case Str:
			if x.sym {
				r.unsupported("index of symbolic string")
			}
			i := r.concreteInt(r.toInt64(fr.get(in.Index), in.Index.Type()), "string index")
			if i < 0 || i >= len(x.s) {
				r.goPanic("string index out of range")
			}
			fr.env[in] = c.Const(8, uint64(x.s[i]))
		default:
			r.unsupported(fmt.Sprintf("Lookup on %T", x))
		}
	case *ssa.MapUpdate:
		m, _ := fr.get(in.Map).(*MapVal)
		if m == nil {
			r.goPanic("assignment to entry in nil map")
		}
		r.mapUpdate(m, fr.get(in.Key), fr.get(in.Value))
	case *ssa.TypeAssert:
		fr.env[in] = r.typeAssert(in, fr.get(in.X).(Iface))
	case *ssa.Select:
		fr.env[in] = r.selectOp(fr, in)
	default:
		r.unsupported(fmt.Sprintf("instruction %T", instr))
	}
}

func (r *Run) prepareCall(fr *frame, cc *ssa.CallCommon) (Value, []Value) {
	var args []Value
	var fnv Value
	if cc.IsInvoke() {
		recv := fr.get(cc.Value).(Iface)
		if recv.t == nil {
			r.goPanic("method call on nil interface value: " + cc.Method.Name())
		}
		if bi, ok := recv.v.(*BoundIntrinsicRecv); ok {
			fnv = &BoundIntrinsic{name: bi.typ + "." + cc.Method.Name(), recv: bi.v}
		} else {
			m := r.eng.prog.LookupMethod(recv.t, cc.Method.Pkg(), cc.Method.Name())
			if m == nil {
				r.unsupported(fmt.Sprintf("method %s not found on %v", cc.Method.Name(), recv.t))
			}
			fnv = m
			args = append(args, recv.v)
		}
	} else {
		fnv = fr.get(cc.Value)
	}
	for _, a := range cc.Args {
		args = append(args, fr.get(a))
	}
	return fnv, args
}

// BoundIntrinsicRecv is the dynamic value of interface values implemented by
// the engine itself (context.Context model etc.).
type BoundIntrinsicRecv struct {
	typ string
	v   Value
}

func (r *Run) runDefers(fr *frame) {
	for len(fr.defers) > 0 {
		d := fr.defers[len(fr.defers)-1]
		fr.defers = fr.defers[:len(fr.defers)-1]
		r.call(fr, d.pos, d.fn, d.args)
	}
}

// ---------- operators ----------

func (r *Run) toInt64(v Value, t types.Type) *Term {
	x, ok := v.(*Term)
	if !ok {
		r.unsupported(fmt.Sprintf("integer expected, got %T", v))
	}
	if x.w == 64 {
		return x
	}
	_, signed, _ := basicWidth(t)
	if signed {
		return r.ctx.Sext(x, 64)
	}
	return r.ctx.Zext(x, 64)
}

func (r *Run) unop(fr *frame, in *ssa.UnOp, x Value) Value {
	c := r.ctx
	switch in.Op {
	case token.MUL:
		return r.load(x.(Ptr))
	case token.ARROW:
		ch, _ := x.(*Chan)
		v, ok := r.chanRecv(ch)
		if v == nil {
			v = r.zero(in.X.Type().Underlying().(*types.Chan).Elem())
		}
		if in.CommaOk {
			return Tuple{v, c.Bool(ok)}
		}
		return v
	case token.NOT:
		return c.Not(x.(*Term))
	case token.SUB:
		if f, ok := x.(Float); ok {
			if f.sym {
				r.unsupported("symbolic float negation")
			}
			return Float{f: -f.f}
		}
		return c.Neg(x.(*Term))
	case token.XOR:
		return c.BNot(x.(*Term))
	}
	r.unsupported("unop " + in.Op.String())
	return nil
}

func (r *Run) binop(op token.Token, xt, yt types.Type, x, y Value) Value {
	c := r.ctx
	switch op {
	case token.EQL:
		return r.valEq(x, y)
	case token.NEQ:
		return c.Not(r.valEq(x, y))
	}
	switch a := x.(type) {
	case *Term:
		b := y.(*Term)
		if a.w == 0 {
			switch op {
			case token.AND, token.LAND:
				return c.And(a, b)
			case token.OR, token.LOR:
				return c.Or(a, b)
			case token.XOR:
				return c.Not(c.Eq(a, b))
			}
			r.unsupported("bool binop " + op.String())
		}
		_, signed, _ := basicWidth(xt)
		switch op {
		case token.ADD:
			return c.Add(a, b)
		case token.SUB:
			return c.Sub(a, b)
		case token.MUL:
			return c.Mul(a, b)
		case token.QUO:
			r.obligation("div-zero", c.Not(c.Eq(b, c.Const(b.w, 0))), "integer divide by zero")
			if signed {
				return c.SDiv(a, b)
			}
			return c.UDiv(a, b)
		case token.REM:
			r.obligation("div-zero", c.Not(c.Eq(b, c.Const(b.w, 0))), "integer divide by zero")
			if signed {
				return c.SRem(a, b)
			}
			return c.URem(a, b)
		case token.AND:
			return c.BAnd(a, b)
		case token.OR:
			return c.BOr(a, b)
		case token.XOR:
			return c.BXor(a, b)
		case token.AND_NOT:
			return c.BAnd(a, c.BNot(b))
		case token.SHL, token.SHR:
			_, ysigned, _ := basicWidth(yt)
			if ysigned {
				r.obligation("neg-shift", c.Sle(c.Const(b.w, 0), b), "negative shift amount")
			}
			// normalise shift count to operand width with saturation
			var cnt *Term
			big := c.F
			if b.w > a.w {
				big = c.Not(c.Ult(b, c.Const(b.w, uint64(a.w))))
				cnt = c.Extract(b, a.w-1, 0)
			} else {
				cnt = c.Zext(b, a.w)
			}
			var res, sat *Term
			if op == token.SHL {
				res, sat = c.Shl(a, cnt), c.Const(a.w, 0)
			} else if signed {
				res, sat = c.AShr(a, cnt), c.AShr(a, c.Const(a.w, uint64(a.w-1)))
			} else {
				res, sat = c.LShr(a, cnt), c.Const(a.w, 0)
			}
			return c.Ite(big, sat, res)
		case token.LSS:
			if signed {
				return c.Slt(a, b)
			}
			return c.Ult(a, b)
		case token.LEQ:
			if signed {
				return c.Sle(a, b)
			}
			return c.Ule(a, b)
		case token.GTR:
			if signed {
				return c.Slt(b, a)
			}
			return c.Ult(b, a)
		case token.GEQ:
			if signed {
				return c.Sle(b, a)
			}
			return c.Ule(b, a)
		}
	case Str:
		b := y.(Str)
		if a.sym || b.sym {
			if op == token.ADD {
				return r.opaqueStr("concat", a, b)
			}
			r.unsupported("symbolic string binop " + op.String())
		}
		switch op {
		case token.ADD:
			return mkStr(a.s + b.s)
		case token.LSS:
			return c.Bool(a.s < b.s)
		case token.LEQ:
			return c.Bool(a.s <= b.s)
		case token.GTR:
			return c.Bool(a.s > b.s)
		case token.GEQ:
			return c.Bool(a.s >= b.s)
		}
	case Float:
		b := y.(Float)
		if a.sym || b.sym {
			r.unsupported("symbolic float arithmetic " + op.String())
		}
		switch op {
		case token.ADD:
			return Float{f: a.f + b.f}
		case token.SUB:
			return Float{f: a.f - b.f}
		case token.MUL:
			return Float{f: a.f * b.f}
		case token.QUO:
			return Float{f: a.f / b.f}
		case token.LSS:
			return c.Bool(a.f < b.f)
		case token.LEQ:
			return c.Bool(a.f <= b.f)
		case token.GTR:
			return c.Bool(a.f > b.f)
		case token.GEQ:
			return c.Bool(a.f >= b.f)
		}
	}
	r.unsupported(fmt.Sprintf("binop %s on %T", op, x))
	return nil
}

func (r *Run) valEq(x, y Value) *Term {
	c := r.ctx
	switch a := x.(type) {
	case *Term:
		return c.Eq(a, y.(*Term))
	case Str:
		b := y.(Str)
		if !a.sym && !b.sym {
			return c.Bool(a.s == b.s)
		}
		return r.symStrEq(a, b)
	case Float:
		b := y.(Float)
		if a.sym || b.sym {
			r.unsupported("symbolic float equality")
		}
		return c.Bool(a.f == b.f)
	case Ptr:
		b := y.(Ptr)
		if a.slot != b.slot {
			return c.F
		}
		if a.slot == nil {
			return c.T
		}
		if len(a.path) != len(b.path) {
			return c.F
		}
		res := c.T
		for i := range a.path {
			if (a.path[i].idx == nil) != (b.path[i].idx == nil) {
				return c.F
			}
			if a.path[i].idx == nil {
				if a.path[i].field != b.path[i].field {
					return c.F
				}
			} else {
				res = c.And(res, c.Eq(a.path[i].idx, b.path[i].idx))
			}
		}
		return res
	case *Struct:
		b := y.(*Struct)
		res := c.T
		for i := range a.f {
			res = c.And(res, r.valEq(a.f[i], b.f[i]))
		}
		return res
	case Iface:
		b := y.(Iface)
		if a.t == nil || b.t == nil {
			return c.Bool(a.t == nil && b.t == nil)
		}
		if !types.Identical(a.t, b.t) {
			return c.F
		}
		return r.valEq(a.v, b.v)
	case *Chan:
		b, _ := y.(*Chan)
		return c.Bool(a == b)
	case *MapVal:
		b, _ := y.(*MapVal)
		return c.Bool(a == b)
	case SliceVal:
		b := y.(SliceVal)
		// only comparison with nil is legal
		if b.slot == nil && b.len == nil {
			return c.Bool(a.slot == nil)
		}
		if a.slot == nil && a.len == nil {
			return c.Bool(b.slot == nil)
		}
	case *ArrVal:
		b := y.(*ArrVal)
		n := r.concreteInt(a.n, "array equality length")
		res := c.T
		for i := 0; i < n; i++ {
			it := c.Const(64, uint64(i))
			res = c.And(res, c.Eq(r.arrSelect(a.node, it), r.arrSelect(b.node, it)))
		}
		return res
	case *GArr:
		b := y.(*GArr)
		res := c.T
		for i := range a.e {
			res = c.And(res, r.valEq(a.e[i], b.e[i]))
		}
		return res
	case nil:
		return c.Bool(y == nil)
	case *ssa.Function, *Closure:
		if y == nil {
			return c.F
		}
	case *BoundIntrinsicRecv:
		b, _ := y.(*BoundIntrinsicRecv)
		return c.Bool(a == b)
	}
	if y == nil {
		return r.ctx.Bool(x == nil)
	}
	r.unsupported(fmt.Sprintf("equality on %T / %T", x, y))
	return nil
}

func (r *Run) conv(dst, src types.Type, v Value) Value {
	c := r.ctx
	du, su := dst.Underlying(), src.Underlying()
	switch x := v.(type) {
	case *Term:
		if db, ok := du.(*types.Basic); ok {
			if db.Info()&types.IsInteger != 0 {
				dw, _, _ := basicWidth(db)
				_, ssigned, _ := basicWidth(su)
				if dw <= x.w {
					return c.Extract(x, dw-1, 0)
				}
				if ssigned {
					return c.Sext(x, dw)
				}
				return c.Zext(x, dw)
			}
			if db.Info()&types.IsFloat != 0 {
				_, ssigned, _ := basicWidth(su)
				var t64 *Term
				if ssigned {
					t64 = c.Sext(x, 64)
				} else {
					t64 = c.Zext(x, 64)
				}
				if t64.IsConst() {
					if ssigned {
						return Float{f: float64(int64(t64.c))}
					}
					return Float{f: float64(t64.c)}
				}
				return Float{sym: true, intTerm: t64}
			}
			if db.Info()&types.IsString != 0 {
				if x.IsConst() {
					return mkStr(string(rune(x.c)))
				}
				return r.opaqueStr("runestr", x)
			}
		}
	case Float:
		if db, ok := du.(*types.Basic); ok {
			if db.Info()&types.IsFloat != 0 {
				return x
			}
			if db.Info()&types.IsInteger != 0 {
				dw, dsigned, _ := basicWidth(db)
				if x.sym {
					if x.intTerm == nil {
						r.unsupported("symbolic float to int")
					}
					return c.Extract(x.intTerm, dw-1, 0)
				}
				if dsigned {
					return c.Const(dw, uint64(int64(x.f)))
				}
				// amd64 semantics for in-range values
				return c.Const(dw, uint64(int64(x.f)))
			}
		}
	case Str:
		if _, ok := du.(*types.Basic); ok {
			return x
		}
		if ds, ok := du.(*types.Slice); ok {
			if x.sym {
				r.unsupported("symbolic string to slice")
			}
			if w, ok := isScalarElem(ds.Elem()); ok && w == 8 {
				n := c.Const(64, uint64(len(x.s)))
				node := &ArrNode{kind: ArrZero, elemW: 8}
				for i := 0; i < len(x.s); i++ {
					node = arrStore(node, c.Const(64, uint64(i)), c.Const(8, uint64(x.s[i])))
				}
				sl := r.newSlot(&ArrVal{node: node, n: n}, "strbytes")
				return SliceVal{slot: sl, off: c.Const(64, 0), len: n, cap: n}
			}
		}
	case SliceVal:
		if db, ok := du.(*types.Basic); ok && db.Info()&types.IsString != 0 {
			// []byte -> string: concrete when all bytes are constants
			if x.slot == nil {
				return mkStr("")
			}
			if x.len.IsConst() && x.off.IsConst() {
				arr := r.walk(x.slot.v, x.path).(*ArrVal)
				buf := make([]byte, x.len.c)
				allc := true
				for i := range buf {
					e := r.arrSelect(arr.node, c.Const(64, x.off.c+uint64(i)))
					if !e.IsConst() {
						allc = false
						break
					}
					buf[i] = byte(e.c)
				}
				if allc {
					return mkStr(string(buf))
				}
			}
			return r.opaqueStr("bytes")
		}
		if _, ok := du.(*types.Slice); ok {
			return x
		}
	case Ptr:
		return x
	}
	r.unsupported(fmt.Sprintf("conversion %v -> %v (%T)", src, dst, v))
	return nil
}

func (r *Run) typeAssert(in *ssa.TypeAssert, x Iface) Value {
	c := r.ctx
	var ok bool
	var res Value
	if it, isI := in.AssertedType.Underlying().(*types.Interface); isI {
		ok = x.t != nil && types.Implements(x.t, it)
		if _, isBI := x.v.(*BoundIntrinsicRecv); isBI && x.t != nil {
			ok = true
		}
		res = x
	} else {
		ok = x.t != nil && types.Identical(x.t, in.AssertedType)
		res = x.v
	}
	if in.CommaOk {
		if !ok {
			res = r.zero(in.AssertedType)
		}
		return Tuple{res, c.Bool(ok)}
	}
	if !ok {
		r.goPanic(fmt.Sprintf("interface conversion: %v is not %v", x.t, in.AssertedType))
	}
	return res
}

// ---------- slices ----------

func (r *Run) sliceLen(s SliceVal) *Term {
	if s.slot == nil {
		return r.ctx.Const(64, 0)
	}
	return s.len
}

func (r *Run) sliceCap(s SliceVal) *Term {
	if s.slot == nil {
		return r.ctx.Const(64, 0)
	}
	return s.cap
}

func (r *Run) makeSlice(et types.Type, ln, cp *Term) SliceVal {
	c := r.ctx
	if w, ok := isScalarElem(et); ok {
		sl := r.newSlot(&ArrVal{node: &ArrNode{kind: ArrZero, elemW: w}, n: cp}, "makeslice")
		return SliceVal{slot: sl, off: c.Const(64, 0), len: ln, cap: cp}
	}
	n := r.concreteInt(ln, "length of slice of non-scalars")
	z := r.zero(et)
	g := &GArr{e: make([]Value, n), zero: z}
	for i := range g.e {
		g.e[i] = z
	}
	sl := r.newSlot(g, "makeslice")
	return SliceVal{slot: sl, off: c.Const(64, 0), len: ln, cap: cp}
}

func (r *Run) sliceOp(fr *frame, in *ssa.Slice) Value {
	c := r.ctx
	x := fr.get(in.X)
	var lo, hi, mx *Term
	if in.Low != nil {
		lo = r.toInt64(fr.get(in.Low), in.Low.Type())
	} else {
		lo = c.Const(64, 0)
	}
	if in.High != nil {
		hi = r.toInt64(fr.get(in.High), in.High.Type())
	}
	if in.Max != nil {
		mx = r.toInt64(fr.get(in.Max), in.Max.Type())
	}
	zero := c.Const(64, 0)
	switch s := x.(type) {
	case SliceVal:
		ln, cp := r.sliceLen(s), r.sliceCap(s)
		if hi == nil {
			hi = ln
		}
		if mx == nil {
			mx = cp
		}
		cond := c.And(c.And(c.Sle(zero, lo), c.Sle(lo, hi)), c.And(c.Sle(hi, mx), c.Sle(mx, cp)))
		r.obligation("slice-bounds", cond, "slice bounds out of range")
		if s.slot == nil {
			return SliceVal{}
		}
		return SliceVal{slot: s.slot, path: s.path, off: c.Add(s.off, lo), len: c.Sub(hi, lo), cap: c.Sub(mx, lo)}
	case Ptr: // pointer to array
		if s.slot == nil {
			r.goPanic("slice of nil array pointer")
		}
		n := c.Const(64, uint64(in.X.Type().Underlying().(*types.Pointer).Elem().Underlying().(*types.Array).Len()))
		if hi == nil {
			hi = n
		}
		if mx == nil {
			mx = n
		}
		cond := c.And(c.And(c.Sle(zero, lo), c.Sle(lo, hi)), c.And(c.Sle(hi, mx), c.Sle(mx, n)))
		r.obligation("slice-bounds", cond, "slice bounds out of range")
		base := zero
		if s.winOff != nil {
			base = s.winOff
		}
		return SliceVal{slot: s.slot, path: s.path, off: c.Add(base, lo), len: c.Sub(hi, lo), cap: c.Sub(mx, lo)}
	case Str:
		if s.sym {
			r.unsupported("slice of symbolic string")
		}
		l := r.concreteInt(lo, "string slice")
		h := len(s.s)
		if hi != nil {
			h = r.concreteInt(hi, "string slice")
		}
		if l < 0 || l > h || h > len(s.s) {
			r.goPanic("string slice bounds out of range")
		}
		return mkStr(s.s[l:h])
	}
	r.unsupported(fmt.Sprintf("slice of %T", x))
	return nil
}

// sliceArr returns the array value (scalar or generic) backing s.
func (r *Run) sliceArr(s SliceVal) Value {
	r.raceAccess(s.slot, append(append([]pathElem(nil), s.path...), pathElem{idx: r.ctx.Var("race_any", 64)}), false)
	return r.walk(s.slot.v, s.path)
}

func (r *Run) setSliceArr(s SliceVal, a Value) {
	r.raceAccess(s.slot, append(append([]pathElem(nil), s.path...), pathElem{idx: r.ctx.Var("race_any", 64)}), true)
	s.slot.v = r.update(s.slot.v, s.path, a)
}

// elemAt reads element i (term) of slice s.
func (r *Run) elemAt(s SliceVal, i *Term) Value {
	switch a := r.sliceArr(s).(type) {
	case *ArrVal:
		return r.arrSelect(a.node, r.ctx.Add(s.off, i))
	case *GArr:
		k := r.concreteInt(r.ctx.Add(s.off, i), "generic slice index")
		if k >= len(a.e) {
			return a.zero
		}
		return a.e[k]
	}
	r.unsupported("elemAt")
	return nil
}

func (g *GArr) grown(n int) *GArr {
	if n <= len(g.e) {
		ng := &GArr{e: make([]Value, len(g.e)), zero: g.zero}
		copy(ng.e, g.e)
		return ng
	}
	ng := &GArr{e: make([]Value, n), zero: g.zero}
	copy(ng.e, g.e)
	for i := len(g.e); i < n; i++ {
		ng.e[i] = g.zero
	}
	return ng
}

func (r *Run) appendOp(st types.Type, s SliceVal, t Value) Value {
	c := r.ctx
	et := st.Underlying().(*types.Slice).Elem()
	w, scalar := isScalarElem(et)
	// normalise the appended part
	var ts SliceVal
	switch tv := t.(type) {
	case SliceVal:
		ts = tv
	case Str:
		ts = r.conv(types.NewSlice(types.Typ[types.Uint8]), types.Typ[types.String], tv).(SliceVal)
	default:
		r.unsupported(fmt.Sprintf("append of %T", t))
	}
	n := r.sliceLen(ts)
	if n.IsConst() && n.c == 0 {
		return s
	}
	ln, cp := r.sliceLen(s), r.sliceCap(s)
	newLen := c.Add(ln, n)
	fitsT := c.Sle(newLen, cp)
	var fits bool
	if fitsT.IsConst() {
		fits = fitsT.IsTrue()
	} else {
		fits = r.branch(fitsT)
	}
	if scalar {
		var srcNode *ArrNode
		srcOff := c.Const(64, 0)
		if ts.slot != nil {
			srcNode = r.sliceArr(ts).(*ArrVal).node
			srcOff = ts.off
		} else {
			srcNode = &ArrNode{kind: ArrZero, elemW: w}
		}
		write := func(dst *ArrNode, at *Term) *ArrNode {
			if n.IsConst() && n.c <= 16 {
				for k := uint64(0); k < n.c; k++ {
					kk := c.Const(64, k)
					dst = arrStore(dst, c.Add(at, kk), r.arrSelect(srcNode, c.Add(srcOff, kk)))
				}
				return dst
			}
			return arrCopy(dst, at, srcNode, srcOff, n)
		}
		if fits {
			arr := r.sliceArr(s).(*ArrVal)
			nn := write(arr.node, c.Add(s.off, ln))
			r.setSliceArr(s, &ArrVal{node: nn, n: arr.n})
			return SliceVal{slot: s.slot, path: s.path, off: s.off, len: newLen, cap: s.cap}
		}
		newCap := newLen
		if newLen.IsConst() && cp.IsConst() {
			newCap = c.Const(64, max(newLen.c, 2*cp.c))
		}
		node := &ArrNode{kind: ArrZero, elemW: w}
		if s.slot != nil && !(ln.IsConst() && ln.c == 0) {
			old := r.sliceArr(s).(*ArrVal)
			if ln.IsConst() && ln.c <= 32 {
				for k := uint64(0); k < ln.c; k++ {
					kk := c.Const(64, k)
					node = arrStore(node, kk, r.arrSelect(old.node, c.Add(s.off, kk)))
				}
			} else {
				node = arrCopy(node, c.Const(64, 0), old.node, s.off, ln)
			}
		}
		node = write(node, ln)
		sl := r.newSlot(&ArrVal{node: node, n: newCap}, "append")
		return SliceVal{slot: sl, off: c.Const(64, 0), len: newLen, cap: newCap}
	}
	// generic elements: concrete lengths
	nn := r.concreteInt(n, "append length (non-scalar)")
	l := r.concreteInt(ln, "slice length (non-scalar)")
	elems := make([]Value, nn)
	for k := 0; k < nn; k++ {
		elems[k] = r.elemAt(ts, c.Const(64, uint64(k)))
	}
	if fits {
		off := r.concreteInt(s.off, "slice offset (non-scalar)")
		g := r.sliceArr(s).(*GArr).grown(off + l + nn)
		copy(g.e[off+l:], elems)
		r.setSliceArr(s, g)
		return SliceVal{slot: s.slot, path: s.path, off: s.off, len: newLen, cap: s.cap}
	}
	g := &GArr{e: make([]Value, l+nn), zero: r.zero(et)}
	for k := 0; k < l; k++ {
		g.e[k] = r.elemAt(s, c.Const(64, uint64(k)))
	}
	copy(g.e[l:], elems)
	newCap := c.Const(64, uint64(l+nn))
	if cp.IsConst() {
		newCap = c.Const(64, max(uint64(l+nn), 2*cp.c))
	}
	sl := r.newSlot(g, "append")
	return SliceVal{slot: sl, off: c.Const(64, 0), len: newLen, cap: newCap}
}

func (r *Run) copyOp(d SliceVal, srcV Value) Value {
	c := r.ctx
	var s SliceVal
	switch sv := srcV.(type) {
	case SliceVal:
		s = sv
	case Str:
		s = r.conv(types.NewSlice(types.Typ[types.Uint8]), types.Typ[types.String], sv).(SliceVal)
	}
	dl, sl := r.sliceLen(d), r.sliceLen(s)
	n := c.Ite(c.Slt(dl, sl), dl, sl)
	if n.IsConst() && n.c == 0 {
		return n
	}
	if d.slot == nil || s.slot == nil {
		return n
	}
	switch da := r.sliceArr(d).(type) {
	case *ArrVal:
		sa := r.sliceArr(s).(*ArrVal)
		var nn *ArrNode
		if n.IsConst() && n.c <= 16 {
			nn = da.node
			for k := uint64(0); k < n.c; k++ {
				kk := c.Const(64, k)
				nn = arrStore(nn, c.Add(d.off, kk), r.arrSelect(sa.node, c.Add(s.off, kk)))
			}
		} else {
			nn = r.arrCopyM(da.node, d.off, sa.node, s.off, n)
		}
		r.setSliceArr(d, &ArrVal{node: nn, n: da.n})
	case *GArr:
		k := r.concreteInt(n, "copy length (non-scalar)")
		do := r.concreteInt(d.off, "offset")
		elems := make([]Value, k)
		for i := 0; i < k; i++ {
			elems[i] = r.elemAt(s, c.Const(64, uint64(i)))
		}
		g := da.grown(do + k)
		copy(g.e[do:], elems)
		r.setSliceArr(d, g)
	}
	return n
}

// ---------- maps ----------

func (r *Run) mapLookup(m *MapVal, k Value) (Value, bool) {
	if m == nil {
		return nil, false
	}
	for i := range m.keys {
		eq := r.valEq(m.keys[i], k)
		var is bool
		if eq.IsConst() {
			is = eq.IsTrue()
		} else {
			is = r.branch(eq)
		}
		if is {
			return m.vals[i], true
		}
	}
	return nil, false
}

func (r *Run) mapUpdate(m *MapVal, k, v Value) {
	for i := range m.keys {
		eq := r.valEq(m.keys[i], k)
		var is bool
		if eq.IsConst() {
			is = eq.IsTrue()
		} else {
			is = r.branch(eq)
		}
		if is {
			m.vals[i] = v
			return
		}
	}
	m.keys = append(m.keys, k)
	m.vals = append(m.vals, v)
}

func (r *Run) mapDelete(m *MapVal, k Value) {
	if m == nil {
		return
	}
	for i := range m.keys {
		eq := r.valEq(m.keys[i], k)
		var is bool
		if eq.IsConst() {
			is = eq.IsTrue()
		} else {
			is = r.branch(eq)
		}
		if is {
			m.keys = append(append([]Value(nil), m.keys[:i]...), m.keys[i+1:]...)
			m.vals = append(append([]Value(nil), m.vals[:i]...), m.vals[i+1:]...)
			return
		}
	}
}

// ---------- builtins ----------

func (r *Run) callBuiltin(fr *frame, b *ssa.Builtin, args []Value) Value {
	c := r.ctx
	switch b.Name() {
	case "len":
		switch x := args[0].(type) {
		case SliceVal:
			return r.sliceLen(x)
		case Str:
			if x.sym {
				r.unsupported("len of symbolic string")
			}
			return c.Const(64, uint64(len(x.s)))
		case *MapVal:
			if x == nil {
				return c.Const(64, 0)
			}
			return c.Const(64, uint64(len(x.keys)))
		case *Chan:
			if x == nil {
				return c.Const(64, 0)
			}
			return c.Const(64, uint64(len(x.buf)))
		case *ArrVal:
			return x.n
		case *GArr:
			return c.Const(64, uint64(len(x.e)))
		}
	case "cap":
		switch x := args[0].(type) {
		case SliceVal:
			return r.sliceCap(x)
		case *Chan:
			if x == nil {
				return c.Const(64, 0)
			}
			return c.Const(64, uint64(x.cap))
		}
	case "append":
		st := b.Type().(*types.Signature).Params().At(0).Type()
		return r.appendOp(st, args[0].(SliceVal), args[1])
	case "copy":
		return r.copyOp(args[0].(SliceVal), args[1])
	case "close":
		ch, _ := args[0].(*Chan)
		r.chanClose(ch)
		return nil
	case "delete":
		m, _ := args[0].(*MapVal)
		r.mapDelete(m, args[1])
		return nil
	case "min", "max":
		t0 := b.Type().(*types.Signature).Params().At(0).Type()
		_, signed, _ := basicWidth(t0)
		res := args[0].(*Term)
		for _, a := range args[1:] {
			y := a.(*Term)
			var lt *Term
			if signed {
				lt = c.Slt(y, res)
			} else {
				lt = c.Ult(y, res)
			}
			if b.Name() == "max" {
				lt = c.Not(c.Or(lt, c.Eq(y, res)))
			}
			res = c.Ite(lt, y, res)
		}
		return res
	case "panic":
		r.goPanic("panic: " + r.show(args[0]))
	case "print", "println":
		return nil
	case "recover":
		return Iface{}
	case "ssa:wrapnilchk":
		if p, ok := args[0].(Ptr); ok && p.slot == nil {
			r.goPanic("value method called using nil pointer")
		}
		return args[0]
	}
	r.unsupported("builtin " + b.Name())
	return nil
}

func (r *Run) show(v Value) string {
	switch x := v.(type) {
	case *Term:
		return r.ctx.Str(x)
	case Str:
		if x.sym {
			return fmt.Sprintf("<symstr %s#%d>", x.kind, x.id)
		}
		return fmt.Sprintf("%q", x.s)
	case Iface:
		if x.t == nil {
			return "nil"
		}
		return fmt.Sprintf("%v(%s)", x.t, r.show(x.v))
	case Ptr:
		if x.slot == nil {
			return "nil"
		}
		return fmt.Sprintf("&slot%d%v", x.slot.id, len(x.path))
	case *Struct:
		s := "{"
		for i, f := range x.f {
			if i > 0 {
				s += " "
			}
			if i > 6 {
				s += "…"
				break
			}
			s += r.show(f)
		}
		return s + "}"
	case nil:
		return "nil"
	}
	return fmt.Sprintf("%T", v)
}
