package main

import (
	"math/rand"
	"testing"
)

// Differential test of the simplifying term constructors against a direct
// reference evaluation on random expressions and random assignments.

type rexp struct {
	op   string
	w    int
	kids []*rexp
	c    uint64
	name string
	hi   int
}

func (e *rexp) eval(env map[string]uint64) uint64 {
	k := func(i int) uint64 { return e.kids[i].eval(env) }
	var r uint64
	switch e.op {
	case "const":
		r = e.c
	case "var":
		r = env[e.name]
	case "add":
		r = k(0) + k(1)
	case "sub":
		r = k(0) - k(1)
	case "mul":
		r = k(0) * k(1)
	case "and":
		r = k(0) & k(1)
	case "or":
		r = k(0) | k(1)
	case "xor":
		r = k(0) ^ k(1)
	case "shl":
		if k(1) >= uint64(e.w) {
			r = 0
		} else {
			r = k(0) << k(1)
		}
	case "lshr":
		if k(1) >= uint64(e.w) {
			r = 0
		} else {
			r = k(0) >> k(1)
		}
	case "udiv":
		if k(1) == 0 {
			r = mask(e.w)
		} else {
			r = k(0) / k(1)
		}
	case "urem":
		if k(1) == 0 {
			r = k(0)
		} else {
			r = k(0) % k(1)
		}
	case "zext":
		r = k(0)
	case "sext":
		r = uint64(sext64(k(0), e.kids[0].w))
	case "extract":
		r = k(0) >> uint(e.c)
	case "ite":
		if k(0) != 0 {
			r = k(1)
		} else {
			r = k(2)
		}
	case "ult":
		r = b2u(k(0) < k(1))
	case "slt":
		r = b2u(sext64(k(0), e.kids[0].w) < sext64(k(1), e.kids[0].w))
	case "eq":
		r = b2u(k(0) == k(1))
	case "not":
		r = 1 - k(0)
	case "band":
		r = k(0) & k(1)
	case "bor":
		r = k(0) | k(1)
	}
	if e.w > 0 {
		r &= mask(e.w)
	}
	return r
}

func (e *rexp) build(c *TermCtx) *Term {
	k := func(i int) *Term { return e.kids[i].build(c) }
	switch e.op {
	case "const":
		return c.Const(e.w, e.c)
	case "var":
		return c.Var(e.name, e.w)
	case "add":
		return c.Add(k(0), k(1))
	case "sub":
		return c.Sub(k(0), k(1))
	case "mul":
		return c.Mul(k(0), k(1))
	case "and":
		return c.BAnd(k(0), k(1))
	case "or":
		return c.BOr(k(0), k(1))
	case "xor":
		return c.BXor(k(0), k(1))
	case "shl":
		return c.Shl(k(0), k(1))
	case "lshr":
		return c.LShr(k(0), k(1))
	case "udiv":
		return c.UDiv(k(0), k(1))
	case "urem":
		return c.URem(k(0), k(1))
	case "zext":
		return c.Zext(k(0), e.w)
	case "sext":
		return c.Sext(k(0), e.w)
	case "extract":
		return c.Extract(k(0), e.hi, int(e.c))
	case "ite":
		return c.Ite(k(0), k(1), k(2))
	case "ult":
		return c.Ult(k(0), k(1))
	case "slt":
		return c.Slt(k(0), k(1))
	case "eq":
		return c.Eq(k(0), k(1))
	case "not":
		return c.Not(k(0))
	case "band":
		return c.And(k(0), k(1))
	case "bor":
		return c.Or(k(0), k(1))
	}
	panic(e.op)
}

var testVars = []struct {
	name string
	w    int
}{{"a8", 8}, {"b8", 8}, {"c16", 16}, {"d32", 32}, {"e64", 64}, {"f64", 64}}

func genBV(rng *rand.Rand, w, depth int) *rexp {
	if depth == 0 || rng.Intn(5) == 0 {
		if rng.Intn(2) == 0 {
			consts := []uint64{0, 1, 2, 3, 4, 7, 8, 16, 255, 256, 65535, 1 << 31, ^uint64(0), 1000000000, uint64(rng.Int63())}
			return &rexp{op: "const", w: w, c: consts[rng.Intn(len(consts))] & mask(w)}
		}
		// variable of width w, or zext/extract of another
		var cands []int
		for i, v := range testVars {
			if v.w == w {
				cands = append(cands, i)
			}
		}
		if len(cands) > 0 && rng.Intn(3) != 0 {
			v := testVars[cands[rng.Intn(len(cands))]]
			return &rexp{op: "var", w: w, name: v.name}
		}
		v := testVars[rng.Intn(len(testVars))]
		ve := &rexp{op: "var", w: v.w, name: v.name}
		if v.w < w {
			return &rexp{op: "zext", w: w, kids: []*rexp{ve}}
		}
		if v.w > w {
			return &rexp{op: "extract", w: w, kids: []*rexp{ve}, hi: w - 1, c: 0}
		}
		return ve
	}
	switch rng.Intn(14) {
	case 0, 1:
		return &rexp{op: "add", w: w, kids: []*rexp{genBV(rng, w, depth-1), genBV(rng, w, depth-1)}}
	case 2:
		return &rexp{op: "sub", w: w, kids: []*rexp{genBV(rng, w, depth-1), genBV(rng, w, depth-1)}}
	case 3:
		return &rexp{op: "mul", w: w, kids: []*rexp{genBV(rng, w, depth-1), genBV(rng, w, depth-1)}}
	case 4:
		ops := []string{"and", "or", "xor"}
		return &rexp{op: ops[rng.Intn(3)], w: w, kids: []*rexp{genBV(rng, w, depth-1), genBV(rng, w, depth-1)}}
	case 5:
		ops := []string{"shl", "lshr"}
		sh := &rexp{op: "const", w: w, c: uint64(rng.Intn(w + 2))}
		return &rexp{op: ops[rng.Intn(2)], w: w, kids: []*rexp{genBV(rng, w, depth-1), sh}}
	case 6:
		ops := []string{"udiv", "urem"}
		return &rexp{op: ops[rng.Intn(2)], w: w, kids: []*rexp{genBV(rng, w, depth-1), genBV(rng, w, depth-1)}}
	case 7, 8:
		ws := []int{8, 16, 32}
		iw := ws[rng.Intn(3)]
		if iw < w {
			op := "zext"
			if rng.Intn(4) == 0 {
				op = "sext"
			}
			return &rexp{op: op, w: w, kids: []*rexp{genBV(rng, iw, depth-1)}}
		}
		return genBV(rng, w, depth-1)
	case 9:
		ws := []int{16, 32, 64}
		iw := ws[rng.Intn(3)]
		if iw > w {
			lo := rng.Intn(iw - w + 1)
			return &rexp{op: "extract", w: w, kids: []*rexp{genBV(rng, iw, depth-1)}, hi: lo + w - 1, c: uint64(lo)}
		}
		return genBV(rng, w, depth-1)
	default:
		return &rexp{op: "ite", w: w, kids: []*rexp{genBool(rng, depth-1), genBV(rng, w, depth-1), genBV(rng, w, depth-1)}}
	}
}

func genBool(rng *rand.Rand, depth int) *rexp {
	ws := []int{8, 16, 32, 64}
	w := ws[rng.Intn(4)]
	if depth <= 0 {
		return &rexp{op: "ult", w: 0, kids: []*rexp{genBV(rng, w, 0), genBV(rng, w, 0)}}
	}
	switch rng.Intn(7) {
	case 0, 1:
		return &rexp{op: "ult", w: 0, kids: []*rexp{genBV(rng, w, depth-1), genBV(rng, w, depth-1)}}
	case 2:
		return &rexp{op: "slt", w: 0, kids: []*rexp{genBV(rng, w, depth-1), genBV(rng, w, depth-1)}}
	case 3:
		return &rexp{op: "eq", w: 0, kids: []*rexp{genBV(rng, w, depth-1), genBV(rng, w, depth-1)}}
	case 4:
		return &rexp{op: "not", w: 0, kids: []*rexp{genBool(rng, depth-1)}}
	case 5:
		return &rexp{op: "band", w: 0, kids: []*rexp{genBool(rng, depth-1), genBool(rng, depth-1)}}
	default:
		return &rexp{op: "bor", w: 0, kids: []*rexp{genBool(rng, depth-1), genBool(rng, depth-1)}}
	}
}

func TestSimplifierAgainstReference(t *testing.T) {
	rng := rand.New(rand.NewSource(12345))
	n := 60000
	for i := 0; i < n; i++ {
		var e *rexp
		if i%3 == 0 {
			e = genBool(rng, 4)
		} else {
			ws := []int{8, 16, 32, 64}
			e = genBV(rng, ws[rng.Intn(4)], 4)
		}
		c := NewTermCtx()
		tm := e.build(c)
		for j := 0; j < 6; j++ {
			env := map[string]uint64{}
			m := NewModel()
			for _, v := range testVars {
				var x uint64
				switch rng.Intn(4) {
				case 0:
					x = uint64(rng.Intn(300))
				case 1:
					x = uint64(rng.Int63()) << 1
				case 2:
					x = uint64(rng.Intn(70000))
				default:
					x = ^uint64(0) - uint64(rng.Intn(5))
				}
				x &= mask(v.w)
				env[v.name] = x
				m.Vars[v.name] = x
			}
			want := e.eval(env)
			m.Total = true
			got, _ := m.Eval(tm)
			if got != want {
				t.Fatalf("iteration %d: mismatch got %d want %d\nterm %s\nenv %v", i, got, want, termStr(tm, 12), env)
			}
			if tm.w > 0 && (got < tm.rlo || got > tm.rhi) {
				t.Fatalf("iteration %d: value %d outside computed range [%d,%d]\nterm %s\nenv %v", i, got, tm.rlo, tm.rhi, termStr(tm, 12), env)
			}
		}
	}
}

// Path facts: conditions that hold under the assignment are recorded with AddFact (as the
// interpreter does for every path-condition conjunct); terms built afterwards may be simplified
// using them and must still evaluate to the reference value under that assignment.
func TestFactsAgainstReference(t *testing.T) {
	rng := rand.New(rand.NewSource(777))
	for i := 0; i < 40000; i++ {
		env := map[string]uint64{}
		m := NewModel()
		for _, v := range testVars {
			var x uint64
			switch rng.Intn(4) {
			case 0:
				x = uint64(rng.Intn(300))
			case 1:
				x = uint64(rng.Int63()) << 1
			case 2:
				x = uint64(rng.Intn(70000))
			default:
				x = ^uint64(0) - uint64(rng.Intn(5))
			}
			x &= mask(v.w)
			env[v.name] = x
			m.Vars[v.name] = x
		}
		m.Total = true
		c := NewTermCtx()
		// facts
		for k := 0; k < 1+rng.Intn(4); k++ {
			fe := genBool(rng, 2)
			ft := fe.build(c)
			if fe.eval(env) != 0 {
				c.AddFact(ft)
			} else {
				c.AddFact(c.Not(ft))
			}
		}
		var e *rexp
		if i%3 == 0 {
			e = genBool(rng, 4)
		} else {
			ws := []int{8, 16, 32, 64}
			e = genBV(rng, ws[rng.Intn(4)], 4)
		}
		tm := e.build(c)
		want := e.eval(env)
		got, _ := m.Eval(tm)
		if got != want {
			t.Fatalf("iteration %d: mismatch with facts: got %d want %d\nterm %s\nenv %v", i, got, want, termStr(tm, 12), env)
		}
	}
}
