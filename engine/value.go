package main

// Runtime values of the symbolic interpreter. All aggregate values are
// immutable; mutation happens only by replacing the content of a Slot.

import (
	"fmt"
	"go/types"

	"golang.org/x/tools/go/ssa"
)

type Value interface{}

// Slot is a heap cell (one per Alloc / global / make).
type Slot struct {
	id int
	v  Value
	// happens-before race detection (FastTrack-like, per slot granularity)
	wG, wC int         // last write: goroutine id, its clock
	rd     map[int]int // reads since last write: goroutine -> clock
	name   string
	noRace bool
	acc    map[string]*accessInfo
}

// Struct value (immutable).
type Struct struct{ f []Value }

// ArrNode describes the content of an array of scalars as a function of the
// index; Select expands it into a term.
type ArrKind uint8

const (
	ArrZero ArrKind = iota
	ArrBase
	ArrStore
	ArrCopy
)

type ArrNode struct {
	kind  ArrKind
	elemW int
	name  string   // ArrBase
	prev  *ArrNode // ArrStore / ArrCopy (destination before the write)
	idx   *Term    // ArrStore
	val   *Term    // ArrStore
	src   *ArrNode // ArrCopy
	dOff  *Term
	sOff  *Term
	n     *Term
	depth int
}

// ArrVal: array of scalars by value (immutable).
type ArrVal struct {
	node *ArrNode
	n    *Term // length (64-bit)
}

// GArr: array of non-scalars by value (immutable, copy on write).
type GArr struct {
	e    []Value
	zero Value
}

type pathElem struct {
	field int   // valid when idx == nil
	idx   *Term // element index (64-bit term)
}

// Ptr: nil pointer has slot == nil.
type Ptr struct {
	slot *Slot
	path []pathElem
	// window: pointer produced by SliceToArrayPointer (array view at offset)
	winOff *Term
	winN   int
}

// SliceVal: nil slice has slot == nil.
type SliceVal struct {
	slot          *Slot
	path          []pathElem // path to the array inside slot
	off, len, cap *Term
}

type Iface struct {
	t types.Type // nil => nil interface
	v Value
}

type Closure struct {
	fn  *ssa.Function
	env []Value
}

type BoundIntrinsic struct {
	name string
	recv Value
}

type Tuple []Value

// Str: concrete string or opaque symbolic string.
type Str struct {
	s    string
	sym  bool
	kind string  // provenance for symbolic strings ("addr", "hostport", "opaque")
	args []Value // provenance payload
	id   int
}

type Float struct {
	f       float64
	sym     bool
	intTerm *Term // value is exactly this (signed 64-bit) integer
}

type MapVal struct {
	keys []Value
	vals []Value
	kt   types.Type
	vt   types.Type
}

type MapIter struct {
	m   *MapVal
	pos int
	// snapshot
	keys []Value
	vals []Value
}

func mkStr(s string) Str { return Str{s: s} }

func isScalarElem(t types.Type) (int, bool) {
	b, ok := t.Underlying().(*types.Basic)
	if !ok {
		return 0, false
	}
	switch b.Kind() {
	case types.Int8, types.Uint8:
		return 8, true
	case types.Int16, types.Uint16:
		return 16, true
	case types.Int32, types.Uint32:
		return 32, true
	case types.Int, types.Int64, types.Uint, types.Uint64, types.Uintptr:
		return 64, true
	}
	return 0, false
}

func basicWidth(t types.Type) (w int, signed bool, ok bool) {
	b, isb := t.Underlying().(*types.Basic)
	if !isb {
		return 0, false, false
	}
	switch b.Kind() {
	case types.Bool, types.UntypedBool:
		return 0, false, true
	case types.Int8:
		return 8, true, true
	case types.Uint8:
		return 8, false, true
	case types.Int16:
		return 16, true, true
	case types.Uint16:
		return 16, false, true
	case types.Int32, types.UntypedRune:
		return 32, true, true
	case types.Uint32:
		return 32, false, true
	case types.Int, types.Int64, types.UntypedInt:
		return 64, true, true
	case types.Uint, types.Uint64, types.Uintptr:
		return 64, false, true
	}
	return 0, false, false
}

func (r *Run) zero(t types.Type) Value {
	switch tt := t.Underlying().(type) {
	case *types.Basic:
		switch {
		case tt.Info()&types.IsString != 0:
			return mkStr("")
		case tt.Info()&types.IsFloat != 0:
			return Float{}
		case tt.Kind() == types.UnsafePointer:
			return Ptr{}
		}
		w, _, ok := basicWidth(tt)
		if !ok {
			r.unsupported("zero of basic type " + tt.String())
		}
		return r.ctx.Const(w, 0)
	case *types.Struct:
		s := &Struct{f: make([]Value, tt.NumFields())}
		for i := range s.f {
			s.f[i] = r.zero(tt.Field(i).Type())
		}
		return s
	case *types.Array:
		if w, ok := isScalarElem(tt.Elem()); ok {
			return &ArrVal{node: &ArrNode{kind: ArrZero, elemW: w}, n: r.ctx.Const(64, uint64(tt.Len()))}
		}
		g := &GArr{e: make([]Value, tt.Len()), zero: r.zero(tt.Elem())}
		for i := range g.e {
			g.e[i] = g.zero
		}
		return g
	case *types.Pointer:
		return Ptr{}
	case *types.Slice:
		return SliceVal{}
	case *types.Interface:
		return Iface{}
	case *types.Signature:
		return nil
	case *types.Chan:
		return (*Chan)(nil)
	case *types.Map:
		return (*MapVal)(nil)
	case *types.Tuple:
		tu := make(Tuple, tt.Len())
		for i := range tu {
			tu[i] = r.zero(tt.At(i).Type())
		}
		return tu
	}
	r.unsupported(fmt.Sprintf("zero of type %v", t))
	return nil
}

// ---------- array content ----------

func (r *Run) arrSelect(n *ArrNode, idx *Term) *Term {
	c := r.ctx
	for {
		switch n.kind {
		case ArrZero:
			return c.Const(n.elemW, 0)
		case ArrBase:
			return c.SelectBase(n.name, n.elemW, idx)
		case ArrStore:
			eq := c.Eq(idx, n.idx)
			if eq.IsTrue() {
				return n.val
			}
			if eq.IsFalse() {
				n = n.prev
				continue
			}
			return c.Ite(eq, n.val, r.arrSelect(n.prev, idx))
		case ArrCopy:
			// in range: dOff <= idx < dOff+n   (all values are small non-negative)
			rel := c.Sub(idx, n.dOff)
			in := c.And(c.Ule(n.dOff, idx), c.Ult(rel, n.n))
			if in.IsFalse() {
				n = n.prev
				continue
			}
			sv := r.arrSelect(n.src, c.Add(rel, n.sOff))
			if in.IsTrue() {
				return sv
			}
			return c.Ite(in, sv, r.arrSelect(n.prev, idx))
		}
	}
}

func arrStore(n *ArrNode, idx, val *Term) *ArrNode {
	// overwrite of the same constant index directly on top: drop the old store
	if n.kind == ArrStore && n.idx == idx {
		n = n.prev
	}
	return &ArrNode{kind: ArrStore, elemW: n.elemW, prev: n, idx: idx, val: val, depth: n.depth + 1}
}

func (r *Run) arrCopyM(dst *ArrNode, dOff *Term, src *ArrNode, sOff, n *Term) *ArrNode {
	// contiguous continuation of the previous copy from the same source: one copy
	// (io.ReadFull filling a buffer with several short reads)
	if dst.kind == ArrCopy && dst.src == src {
		c := r.ctx
		if dOff == c.Add(dst.dOff, dst.n) && sOff == c.Add(dst.sOff, dst.n) {
			return &ArrNode{kind: ArrCopy, elemW: dst.elemW, prev: dst.prev, src: src, dOff: dst.dOff, sOff: dst.sOff, n: c.Add(dst.n, n), depth: dst.depth}
		}
	}
	return arrCopy(dst, dOff, src, sOff, n)
}

func arrCopy(dst *ArrNode, dOff *Term, src *ArrNode, sOff, n *Term) *ArrNode {
	return &ArrNode{kind: ArrCopy, elemW: dst.elemW, prev: dst, src: src, dOff: dOff, sOff: sOff, n: n, depth: dst.depth + 1}
}

// ---------- pointer load / store ----------

func (r *Run) walk(v Value, path []pathElem) Value {
	for _, pe := range path {
		if pe.idx == nil {
			s, ok := v.(*Struct)
			if !ok {
				r.unsupported(fmt.Sprintf("field path on %T", v))
			}
			v = s.f[pe.field]
			continue
		}
		switch a := v.(type) {
		case *ArrVal:
			v = r.arrSelect(a.node, pe.idx)
		case *GArr:
			i := r.concreteInt(pe.idx, "index into array of non-scalars")
			if i < 0 || i >= len(a.e) {
				r.goPanic(fmt.Sprintf("index %d out of range [0,%d)", i, len(a.e)))
			}
			v = a.e[i]
		default:
			r.unsupported(fmt.Sprintf("index path on %T", v))
		}
	}
	return v
}

func (r *Run) update(v Value, path []pathElem, nv Value) Value {
	if len(path) == 0 {
		return nv
	}
	pe := path[0]
	if pe.idx == nil {
		s := v.(*Struct)
		ns := &Struct{f: make([]Value, len(s.f))}
		copy(ns.f, s.f)
		ns.f[pe.field] = r.update(s.f[pe.field], path[1:], nv)
		return ns
	}
	switch a := v.(type) {
	case *ArrVal:
		if len(path) != 1 {
			r.unsupported("nested path below scalar array")
		}
		t, ok := nv.(*Term)
		if !ok {
			r.unsupported(fmt.Sprintf("store of %T into scalar array", nv))
		}
		if t.w != a.node.elemW {
			r.unsupported(fmt.Sprintf("store width %d into array of %d", t.w, a.node.elemW))
		}
		return &ArrVal{node: arrStore(a.node, pe.idx, t), n: a.n}
	case *GArr:
		i := r.concreteInt(pe.idx, "index into array of non-scalars")
		if i < 0 || i >= len(a.e) {
			r.goPanic(fmt.Sprintf("index %d out of range [0,%d)", i, len(a.e)))
		}
		na := &GArr{e: make([]Value, len(a.e)), zero: a.zero}
		copy(na.e, a.e)
		na.e[i] = r.update(a.e[i], path[1:], nv)
		return na
	}
	r.unsupported(fmt.Sprintf("update index path on %T", v))
	return nil
}

func (r *Run) load(p Ptr) Value {
	if p.slot == nil {
		r.goPanic("nil pointer dereference (load)")
	}
	r.raceAccess(p.slot, p.path, false)
	v := r.walk(p.slot.v, p.path)
	if p.winOff != nil {
		a, ok := v.(*ArrVal)
		if !ok {
			r.unsupported("array window over non-scalar array")
		}
		zero := &ArrNode{kind: ArrZero, elemW: a.node.elemW}
		n := r.ctx.Const(64, uint64(p.winN))
		return &ArrVal{node: arrCopy(zero, r.ctx.Const(64, 0), a.node, p.winOff, n), n: n}
	}
	return v
}

func (r *Run) store(p Ptr, v Value) {
	if p.slot == nil {
		r.goPanic("nil pointer dereference (store)")
	}
	if p.winOff != nil {
		r.unsupported("store through array window pointer")
	}
	r.raceAccess(p.slot, p.path, true)
	p.slot.v = r.update(p.slot.v, p.path, v)
}

func (r *Run) newSlot(v Value, name string) *Slot {
	r.slotSeq++
	s := &Slot{id: r.slotSeq, v: v, name: name}
	if r.sched != nil && r.sched.cur != nil {
		s.wG, s.wC = r.sched.cur.id, r.sched.cur.vc[r.sched.cur.id]
	}
	return s
}

func pathEq(a, b []pathElem) bool {
	if len(a) != len(b) {
		return false
	}
	for i := range a {
		if a[i].field != b[i].field || a[i].idx != b[i].idx {
			return false
		}
	}
	return true
}

func appendPath(p []pathElem, e pathElem) []pathElem {
	np := make([]pathElem, len(p)+1)
	copy(np, p)
	np[len(p)] = e
	return np
}
