package main

// Long-lived SMT solver processes (z3 / cvc5) driven over stdin/stdout.

import (
	"bufio"
	"fmt"
	"io"
	"os/exec"
	"strconv"
	"strings"
	"sync/atomic"
	"time"
)

type SolverKind int

const (
	Z3 SolverKind = iota
	CVC5Int
	Z3New
	CVC5
)

func (k SolverKind) String() string {
	return [...]string{"z3-4.8.12", "cvc5-bv-as-int", "z3-5.1.0", "cvc5"}[k]
}

type SolverProc struct {
	kind    SolverKind
	cmd     *exec.Cmd
	in      io.WriteCloser
	out     *bufio.Reader
	seq     int
	timeout time.Duration
	dead    bool
}

func startSolver(kind SolverKind, timeout time.Duration) (*SolverProc, error) {
	var cmd *exec.Cmd
	ms := int(timeout / time.Millisecond)
	switch kind {
	case Z3:
		cmd = exec.Command("/usr/bin/z3", "-in", fmt.Sprintf("-t:%d", ms))
	case Z3New:
		cmd = exec.Command("z3-new", "-in", fmt.Sprintf("-t:%d", ms))
	case CVC5Int:
		cmd = exec.Command("cvc5", "--incremental", "--solve-bv-as-int=sum", "--produce-models", "--lang=smt2", fmt.Sprintf("--tlimit-per=%d", ms))
	case CVC5:
		cmd = exec.Command("cvc5", "--incremental", "--produce-models", "--lang=smt2", fmt.Sprintf("--tlimit-per=%d", ms))
	}
	in, err := cmd.StdinPipe()
	if err != nil {
		return nil, err
	}
	out, err := cmd.StdoutPipe()
	if err != nil {
		return nil, err
	}
	cmd.Stderr = cmd.Stdout
	if err := cmd.Start(); err != nil {
		return nil, err
	}
	s := &SolverProc{kind: kind, cmd: cmd, in: in, out: bufio.NewReaderSize(out, 1<<20), timeout: timeout}
	if kind == Z3 || kind == Z3New {
		io.WriteString(in, "(set-option :produce-models true)\n")
	} else {
		io.WriteString(in, "(set-logic ALL)\n")
	}
	return s, nil
}

func (s *SolverProc) kill() {
	if s.dead {
		return
	}
	s.dead = true
	s.in.Close()
	s.cmd.Process.Kill()
	s.cmd.Wait()
}

type SolveResult struct {
	Status string // sat unsat unknown error
	Values map[string]uint64
	Raw    string
}

// send writes text without expecting a response.
func (s *SolverProc) send(text string) {
	if s.dead {
		return
	}
	if _, err := io.WriteString(s.in, text); err != nil {
		s.kill()
	}
}

// checkIn sends prelude (kept), then push; extra; check-sat; get-value; pop.
func (s *SolverProc) checkIn(prelude, extra string, valueExprs []string) SolveResult {
	s.send(prelude)
	if s.dead {
		return SolveResult{Status: "error", Raw: "solver dead"}
	}
	return s.run(extra, valueExprs)
}

// run sends script + check-sat (+ get-value on valueExprs) inside push/pop.
func (s *SolverProc) run(script string, valueExprs []string) SolveResult {
	s.seq++
	marker := fmt.Sprintf("DONE-%d", s.seq)
	var sb strings.Builder
	sb.WriteString("(push 1)\n")
	sb.WriteString(script)
	if s.kind == Z3 || s.kind == Z3New {
		// z3's incremental core is very slow on these QF_ABV queries; the qfaufbv
		// tactic (eager bit-blasting) is used instead and works inside push/pop
		fmt.Fprintf(&sb, "(check-sat-using (try-for qfaufbv %d))\n", int(s.timeout/time.Millisecond))
	} else {
		sb.WriteString("(check-sat)\n")
	}
	fmt.Fprintf(&sb, "(echo \"MID-%d\")\n", s.seq)
	type res struct {
		lines []string
		err   error
	}
	readUntil := func(mark string) res {
		var lines []string
		for {
			line, err := s.out.ReadString('\n')
			if strings.Contains(line, mark) {
				return res{lines, nil}
			}
			if line != "" {
				lines = append(lines, strings.TrimRight(line, "\n"))
			}
			if err != nil {
				return res{lines, err}
			}
		}
	}
	withWatchdog := func(f func() res) res {
		ch := make(chan res, 1)
		go func() { ch <- f() }()
		select {
		case r := <-ch:
			return r
		case <-time.After(s.timeout*2 + 5*time.Second):
			s.kill()
			return res{nil, fmt.Errorf("solver watchdog timeout")}
		}
	}
	if _, err := io.WriteString(s.in, sb.String()); err != nil {
		s.kill()
		return SolveResult{Status: "error", Raw: err.Error()}
	}
	r := withWatchdog(func() res { return readUntil(fmt.Sprintf("MID-%d", s.seq)) })
	if r.err != nil {
		s.kill()
		return SolveResult{Status: "error", Raw: fmt.Sprint(r.err, r.lines)}
	}
	status := "error"
	raw := strings.Join(r.lines, "\n")
	for _, l := range r.lines {
		l = strings.TrimSpace(l)
		if strings.Contains(l, "(error") {
			status = "error"
			break
		}
		if l == "sat" || l == "unsat" || l == "unknown" || l == "timeout" {
			status = l
			if l == "timeout" {
				status = "unknown"
			}
		}
	}
	out := SolveResult{Status: status, Raw: raw}
	if status == "sat" && len(valueExprs) > 0 {
		var gb strings.Builder
		// chunk get-value to keep lines manageable
		gb.WriteString("(get-value (")
		for _, e := range valueExprs {
			gb.WriteString(e)
			gb.WriteByte(' ')
		}
		gb.WriteString("))\n")
		fmt.Fprintf(&gb, "(echo \"%s\")\n", marker)
		io.WriteString(s.in, gb.String())
		r2 := withWatchdog(func() res { return readUntil(marker) })
		if r2.err != nil {
			s.kill()
			return SolveResult{Status: "error", Raw: fmt.Sprint(r2.err)}
		}
		txt := strings.Join(r2.lines, " ")
		if strings.Contains(txt, "(error") {
			out.Status = "error"
			out.Raw = txt
		} else {
			vals, err := parseValues(txt, len(valueExprs))
			if err != nil {
				out.Status = "error"
				out.Raw = err.Error() + ": " + txt
			} else {
				out.Values = map[string]uint64{}
				for i, e := range valueExprs {
					out.Values[e] = vals[i]
				}
			}
		}
	}
	io.WriteString(s.in, "(pop 1)\n")
	return out
}

// parseValues extracts, in order, the value literal of each (expr value) pair.
func parseValues(txt string, n int) ([]uint64, error) {
	// The response is ((e1 v1) (e2 v2) ...). Values are #x.., #b.., true, false,
	// or (_ bvN w). We scan pairs at depth 2 and take the last atom/list.
	var vals []uint64
	depth := 0
	i := 0
	pairStart := -1
	for i < len(txt) {
		ch := txt[i]
		switch ch {
		case '(':
			depth++
			if depth == 2 {
				pairStart = i
			}
		case ')':
			if depth == 2 && pairStart >= 0 {
				pair := txt[pairStart+1 : i]
				v, err := lastValue(pair)
				if err != nil {
					return nil, err
				}
				vals = append(vals, v)
				pairStart = -1
			}
			depth--
		}
		i++
	}
	if len(vals) != n {
		return nil, fmt.Errorf("expected %d values, got %d", n, len(vals))
	}
	return vals, nil
}

func lastValue(pair string) (uint64, error) {
	p := strings.TrimSpace(pair)
	// value is the trailing token or trailing parenthesised group
	if strings.HasSuffix(p, ")") {
		// find matching open paren
		d := 0
		for j := len(p) - 1; j >= 0; j-- {
			if p[j] == ')' {
				d++
			} else if p[j] == '(' {
				d--
				if d == 0 {
					grp := p[j+1 : len(p)-1]
					f := strings.Fields(grp)
					if len(f) == 3 && f[0] == "_" && strings.HasPrefix(f[1], "bv") {
						return strconv.ParseUint(f[1][2:], 10, 64)
					}
					return 0, fmt.Errorf("unparsed value group %q", grp)
				}
			}
		}
	}
	k := strings.LastIndexAny(p, " \t")
	tok := p[k+1:]
	switch {
	case tok == "true":
		return 1, nil
	case tok == "false":
		return 0, nil
	case strings.HasPrefix(tok, "#x"):
		return strconv.ParseUint(tok[2:], 16, 64)
	case strings.HasPrefix(tok, "#b"):
		return strconv.ParseUint(tok[2:], 2, 64)
	}
	return 0, fmt.Errorf("unparsed value %q", tok)
}

// ---------- portfolio with statistics ----------

type SolverStats struct {
	Queries   int64
	Sat       int64
	Unsat     int64
	Unknown   int64
	Errors    int64
	TimeNs    int64
	ByBackend [4]int64
	CrossChk  int64
	CrossDis  int64
	ModelHits int64
}

func (a *SolverStats) add(b *SolverStats) {
	atomic.AddInt64(&a.Queries, b.Queries)
	atomic.AddInt64(&a.Sat, b.Sat)
	atomic.AddInt64(&a.Unsat, b.Unsat)
	atomic.AddInt64(&a.Unknown, b.Unknown)
	atomic.AddInt64(&a.Errors, b.Errors)
	atomic.AddInt64(&a.TimeNs, b.TimeNs)
	for i := range a.ByBackend {
		atomic.AddInt64(&a.ByBackend[i], b.ByBackend[i])
	}
	atomic.AddInt64(&a.CrossChk, b.CrossChk)
	atomic.AddInt64(&a.CrossDis, b.CrossDis)
	atomic.AddInt64(&a.ModelHits, b.ModelHits)
}

type Portfolio struct {
	order   []SolverKind
	procs   map[SolverKind]*SolverProc
	timeout time.Duration
	stats   SolverStats
	cross   int // cross-check every Nth query with the next back end (0 = off)
	nq      int
}

func newPortfolio(order []SolverKind, timeout time.Duration, cross int) *Portfolio {
	return &Portfolio{order: order, procs: map[SolverKind]*SolverProc{}, timeout: timeout, cross: cross}
}

func (p *Portfolio) close() {
	for _, s := range p.procs {
		s.kill()
	}
}

func (p *Portfolio) get(k SolverKind) *SolverProc {
	s := p.procs[k]
	if s == nil || s.dead {
		var err error
		s, err = startSolver(k, p.timeout)
		if err != nil {
			return nil
		}
		p.procs[k] = s
	}
	return s
}

func (p *Portfolio) Solve(script string, valueExprs []string) SolveResult {
	t0 := time.Now()
	p.stats.Queries++
	p.nq++
	var r SolveResult
	decidedBy := -1
	for i, k := range p.order {
		s := p.get(k)
		if s == nil {
			continue
		}
		r = s.run(script, valueExprs)
		if r.Status == "sat" || r.Status == "unsat" {
			p.stats.ByBackend[k]++
			decidedBy = i
			break
		}
	}
	if decidedBy >= 0 && p.cross > 0 && p.nq%p.cross == 0 && len(p.order) > 1 {
		k2 := p.order[(decidedBy+1)%len(p.order)]
		if s2 := p.get(k2); s2 != nil {
			r2 := s2.run(script, nil)
			if r2.Status == "sat" || r2.Status == "unsat" {
				p.stats.CrossChk++
				if r2.Status != r.Status {
					p.stats.CrossDis++
				}
			}
		}
	}
	switch r.Status {
	case "sat":
		p.stats.Sat++
	case "unsat":
		p.stats.Unsat++
	case "unknown":
		p.stats.Unknown++
	default:
		p.stats.Errors++
		r.Status = "unknown"
	}
	p.stats.TimeNs += int64(time.Since(t0))
	return r
}


// Session: incremental use of the primary back end along one path. The path
// condition is asserted once (level 1); each query adds its extra conjuncts in
// an inner push/pop. Other back ends are used stand-alone as fallbacks.
type Session struct {
	p       *Portfolio
	proc    *SolverProc
	em      *Emitter
	nAssert int
}

func (p *Portfolio) openSession() *Session { return &Session{p: p} }

func (ss *Session) close() {
	if ss.proc != nil && !ss.proc.dead {
		ss.proc.send("(pop 1)\n")
	}
	ss.proc = nil
}

// solve checks pc ∧ extras. leaves receives the leaf terms for model extraction.
func (ss *Session) solve(ctx *TermCtx, pc []*Term, extras []*Term, wantModel bool) (SolveResult, []*Term, func(*Term) string) {
	p := ss.p
	t0 := time.Now()
	p.stats.Queries++
	p.nq++
	primary := p.order[0]
	proc := p.get(primary)
	var r SolveResult
	r.Status = "unknown"
	var leaves []*Term
	var ref func(*Term) string
	if proc != nil {
		if ss.proc != proc {
			ss.proc = proc
			ss.em = NewEmitter()
			ss.nAssert = 0
			proc.send("(push 1)\n")
		}
		var sb strings.Builder
		for ; ss.nAssert < len(pc); ss.nAssert++ {
			t := pc[ss.nAssert]
			ss.em.Emit(&sb, t)
			fmt.Fprintf(&sb, "(assert %s)\n", ss.em.Ref(t))
		}
		var xb strings.Builder
		for _, x := range extras {
			ss.em.Emit(&sb, x)
			fmt.Fprintf(&xb, "(assert %s)\n", ss.em.Ref(x))
		}
		leaves = ss.em.Leaves
		ref = ss.em.Ref
		var exprs []string
		if wantModel {
			for _, l := range leaves {
				if l.op == OpVar {
					exprs = append(exprs, l.name)
				} else {
					exprs = append(exprs, ref(l), ref(l.a[0]))
				}
			}
		}
		r = proc.checkIn(sb.String(), xb.String(), exprs)
		if proc.dead {
			ss.proc = nil
		}
		if r.Status == "sat" || r.Status == "unsat" {
			p.stats.ByBackend[primary]++
		}
	}
	if r.Status != "sat" && r.Status != "unsat" {
		// stand-alone fallback on the other back ends
		roots := append(append([]*Term(nil), pc...), extras...)
		script, lv, rf := ctx.Script(roots)
		var exprs []string
		for _, l := range lv {
			if l.op == OpVar {
				exprs = append(exprs, l.name)
			} else {
				exprs = append(exprs, rf(l), rf(l.a[0]))
			}
		}
		for _, k := range p.order[1:] {
			s := p.get(k)
			if s == nil {
				continue
			}
			r = s.run(script, exprs)
			if r.Status == "sat" || r.Status == "unsat" {
				p.stats.ByBackend[k]++
				leaves, ref = lv, rf
				break
			}
		}
	} else if p.cross > 0 && p.nq%p.cross == 0 && len(p.order) > 1 {
		roots := append(append([]*Term(nil), pc...), extras...)
		script, _, _ := ctx.Script(roots)
		if s2 := p.get(p.order[1]); s2 != nil {
			r2 := s2.run(script, nil)
			if r2.Status == "sat" || r2.Status == "unsat" {
				p.stats.CrossChk++
				if r2.Status != r.Status {
					p.stats.CrossDis++
				}
			}
		}
	}
	switch r.Status {
	case "sat":
		p.stats.Sat++
	case "unsat":
		p.stats.Unsat++
	case "unknown":
		p.stats.Unknown++
	default:
		p.stats.Errors++
		r.Status = "unknown"
	}
	p.stats.TimeNs += int64(time.Since(t0))
	return r, leaves, ref
}
