package main

// Loading /repo + harness overlay into go/ssa, and the parallel path explorer.

import (
	"encoding/json"
	"fmt"
	"go/token"
	"os"
	"path/filepath"
	"sort"
	"strings"
	"sync"
	"time"

	"golang.org/x/tools/go/packages"
	"golang.org/x/tools/go/ssa"
	"golang.org/x/tools/go/ssa/ssautil"
)

type fnStat struct {
	instrs int64
	calls  int64
}

type Engine struct {
	prog    *ssa.Program
	pkg     *ssa.Package
	fset    *token.FileSet
	repoDir string

	maxSteps       int
	maxSymBranches int
	maxConcretize  int
	traceEvents    bool
	dumpQueries    string
	dumpSeq        int
	dumpMu         sync.Mutex
	tier           int
	seed           int64

	fnMu    sync.Mutex
	fnStats map[*ssa.Function]*fnStat

	globalInit map[string]func(r *Run) Value
	knownOpen  map[string]bool
	overlayFiles []string
	loadTime   time.Duration
	cpuSem     chan struct{}
	noFacts    bool
	debugPicks bool
	sleepSets  bool
	keepAllObs bool
}

func (e *Engine) fnStat(fn *ssa.Function) *fnStat {
	e.fnMu.Lock()
	defer e.fnMu.Unlock()
	st := e.fnStats[fn]
	if st == nil {
		st = &fnStat{}
		e.fnStats[fn] = st
	}
	st.calls++
	return st
}

func (e *Engine) dumpQuery(script, status string) {
	e.dumpMu.Lock()
	defer e.dumpMu.Unlock()
	e.dumpSeq++
	os.MkdirAll(e.dumpQueries, 0o755)
	os.WriteFile(filepath.Join(e.dumpQueries, fmt.Sprintf("q%05d_%s.smt2", e.dumpSeq, status)), []byte(script+"(check-sat)\n"), 0o644)
}

// harness files that every harness needs: if one of these does not compile nothing can run
func coreHarnessFile(name string) bool {
	return name == "api_decl.go" || name == "util.go" || strings.HasPrefix(name, "models_")
}

// droppedHarnessFiles: harness files left out of this run because they do not compile against the
// tree under test (an internal identifier they use was renamed or removed there) although the
// harnesses of the requested property do; the native replay leaves them out too.
var droppedHarnessFiles = map[string]bool{}

// loadEngine loads repoDir with every *.go file of harnessDir overlaid as
// repoDir/zz_verif_<name> (build tag "verif"). If some harness files do not type-check against the
// tree, they are dropped (and whatever depends on them, iteratively) as long as none of them is a
// core file or defines a harness of property prop ("" = every file is needed).
func loadEngine(repoDir, harnessDir, prop string) (*Engine, error) {
	t0 := time.Now()
	srcs := map[string][]byte{}
	ents, err := os.ReadDir(harnessDir)
	if err != nil {
		return nil, err
	}
	for _, en := range ents {
		if !strings.HasSuffix(en.Name(), ".go") {
			continue
		}
		src, err := os.ReadFile(filepath.Join(harnessDir, en.Name()))
		if err != nil {
			return nil, err
		}
		srcs[en.Name()] = src
	}
	needed := func(name string) bool {
		if prop == "" || coreHarnessFile(name) {
			return true
		}
		src := string(srcs[name])
		return strings.Contains(src, "func Verif_"+prop+"_") || strings.Contains(src, "func VerifT_"+prop+"_")
	}
	var pkgs []*packages.Package
	var ofiles []string
	for round := 0; ; round++ {
		overlay := map[string][]byte{}
		ofiles = nil
		for name, src := range srcs {
			if droppedHarnessFiles[name] {
				continue
			}
			overlay[filepath.Join(repoDir, "zz_verif_"+name)] = src
			ofiles = append(ofiles, name)
		}
		sort.Strings(ofiles)
		cfg := &packages.Config{
			Mode:       packages.LoadAllSyntax,
			Dir:        repoDir,
			Overlay:    overlay,
			BuildFlags: []string{"-tags=verif"},
			Env:        append(os.Environ(), "GOFLAGS=-mod=mod", "GOPROXY=off", "GOSUMDB=off", "GOTOOLCHAIN=local"),
		}
		pkgs, err = packages.Load(cfg, ".")
		if err != nil {
			return nil, err
		}
		if len(pkgs) != 1 {
			return nil, fmt.Errorf("expected one package, got %d", len(pkgs))
		}
		var errs []string
		bad := map[string]bool{}
		fatal := false
		packages.Visit(pkgs, nil, func(p *packages.Package) {
			for _, e := range p.Errors {
				errs = append(errs, e.Error())
				f := e.Pos
				if k := strings.Index(f, ":"); k >= 0 {
					f = f[:k]
				}
				base := filepath.Base(f)
				if filepath.Dir(f) == filepath.Clean(repoDir) && strings.HasPrefix(base, "zz_verif_") && !needed(strings.TrimPrefix(base, "zz_verif_")) {
					bad[strings.TrimPrefix(base, "zz_verif_")] = true
				} else {
					fatal = true
				}
			}
		})
		if len(errs) == 0 {
			break
		}
		if fatal || len(bad) == 0 || round > 8 {
			return nil, fmt.Errorf("harness does not compile against the current tree:\n%s", strings.Join(errs, "\n"))
		}
		for f := range bad {
			droppedHarnessFiles[f] = true
		}
	}
	prog, spkgs := ssautil.AllPackages(pkgs, ssa.InstantiateGenerics)
	prog.Build()
	e := &Engine{prog: prog, pkg: spkgs[0], fset: pkgs[0].Fset, repoDir: repoDir,
		maxSteps: 3_000_000, maxSymBranches: 3000, maxConcretize: 64,
		fnStats: map[*ssa.Function]*fnStat{}, globalInit: map[string]func(*Run) Value{}, knownOpen: map[string]bool{},
		overlayFiles: ofiles, sleepSets: os.Getenv("VERIF_NO_SLEEPSETS") == ""}
	e.loadTime = time.Since(t0)
	return e, nil
}

func (e *Engine) harnesses(propID string, tier int) []string {
	var out []string
	for name, m := range e.pkg.Members {
		if _, ok := m.(*ssa.Function); !ok {
			continue
		}
		if strings.HasPrefix(name, "Verif_"+propID+"_") || (tier >= 1 && strings.HasPrefix(name, "VerifT_"+propID+"_")) {
			out = append(out, name)
		}
	}
	sort.Strings(out)
	return out
}

func (e *Engine) isHarnessFn(fn *ssa.Function) bool {
	p := fn.Pos()
	if !p.IsValid() {
		if fn.Parent() != nil {
			return e.isHarnessFn(fn.Parent())
		}
		return false
	}
	return strings.Contains(e.fset.Position(p).Filename, "zz_verif_")
}

// ---------- exploration ----------

type Summary struct {
	Harness      string
	Paths        int
	Outcomes     map[string]int
	Violations   []*Violation
	Covers       map[string]*CoverSample
	CoverWanted  []string
	CutLoops     map[string]int
	Unsupported  []string
	Obligations  int
	Discharged   int
	Trivial      int
	UnknownObl   int
	SymBranches  int
	Steps        int64
	Transitions  int
	MaxGoroutines int
	Solver       SolverStats
	WallS        float64
	Incomplete   []string
	Assumptions  map[string]bool
	PathsWithObl int
	Observations []string
	Wanted       map[string]bool
	Picks, Concretized int
}

type ExploreCfg struct {
	Workers    int
	MaxPaths   int
	Budget     time.Duration
	Timeout    time.Duration // per query
	Solvers    []SolverKind
	Cross      int
	Concrete   *Model
	Prefix     []Decision
	SinglePath bool
	ConcretePicks []int
}

func (e *Engine) explore(harness string, cfg ExploreCfg) *Summary {
	fn := e.pkg.Func(harness)
	sum := &Summary{Harness: harness, Outcomes: map[string]int{}, Covers: map[string]*CoverSample{}, CutLoops: map[string]int{}, Assumptions: map[string]bool{}}
	if fn == nil {
		sum.Incomplete = append(sum.Incomplete, "harness function not found: "+harness)
		return sum
	}
	t0 := time.Now()
	// a path still running this long after the budget ran out is cut at its next solver query
	var deadline time.Time
	if cfg.Budget > 0 {
		deadline = t0.Add(cfg.Budget + cfg.Budget/4)
	}
	var mu sync.Mutex
	cond := sync.NewCond(&mu)
	stack := [][]Decision{cfg.Prefix}
	active := 0
	stop := false
	vioSeen := map[string]int{}
	unsSeen := map[string]bool{}
	var wg sync.WaitGroup
	nw := cfg.Workers
	if cfg.SinglePath {
		nw = 1
	}
	for w := 0; w < nw; w++ {
		wg.Add(1)
		go func(w int) {
			defer wg.Done()
			pf := newPortfolio(cfg.Solvers, cfg.Timeout, cfg.Cross)
			defer func() {
				mu.Lock()
				sum.Solver.add(&pf.stats)
				mu.Unlock()
				pf.close()
			}()
			for {
				mu.Lock()
				for len(stack) == 0 && active > 0 && !stop {
					cond.Wait()
				}
				if stop || (len(stack) == 0 && active == 0) {
					mu.Unlock()
					cond.Broadcast()
					return
				}
				job := stack[len(stack)-1]
				stack = stack[:len(stack)-1]
				active++
				mu.Unlock()

				if e.cpuSem != nil {
					e.cpuSem <- struct{}{}
				}
				res := e.runPath(fn, harness, job, pf, cfg.Concrete, cfg.ConcretePicks, deadline)
				if e.cpuSem != nil {
					<-e.cpuSem
				}

				mu.Lock()
				active--
				sum.Paths++
				sum.Outcomes[res.Outcome]++
				if !cfg.SinglePath {
					stack = append(stack, res.NewWork...)
				}
				for _, v := range res.Violations {
					key := v.ID + "|" + v.Known + "|" + firstPos(v.Pos)
					vioSeen[key]++
					if vioSeen[key] <= 1 {
						sum.Violations = append(sum.Violations, v)
					}
				}
				for id, cs := range res.Covers {
					if _, ok := sum.Covers[id]; !ok {
						sum.Covers[id] = cs
					}
				}
				for k, n := range res.CutLoops {
					sum.CutLoops[k] += n
				}
				for _, u := range res.Unsupported {
					if !unsSeen[u] {
						unsSeen[u] = true
						sum.Unsupported = append(sum.Unsupported, u)
					}
				}
				for _, w := range res.Wanted {
					if sum.Wanted == nil {
						sum.Wanted = map[string]bool{}
					}
					sum.Wanted[w] = true
				}
				for a := range res.Assumptions {
					sum.Assumptions[a] = true
				}
				sum.Obligations += res.Obligations
				sum.Discharged += res.Discharged
				sum.Trivial += res.Trivial
				sum.UnknownObl += res.UnknownObl
				sum.SymBranches += res.SymBranches
				sum.Steps += int64(res.Steps)
				sum.Transitions += res.Transitions
				sum.Picks += res.Picks
				sum.Concretized += res.Concretized
				if res.Goroutines > sum.MaxGoroutines {
					sum.MaxGoroutines = res.Goroutines
				}
				if res.Obligations > 0 {
					sum.PathsWithObl++
				}
				if len(sum.Observations) < 50 || e.debugPicks || e.keepAllObs {
					sum.Observations = append(sum.Observations, res.Observations...)
				}
				if cfg.MaxPaths > 0 && sum.Paths >= cfg.MaxPaths && (len(stack) > 0 || active > 0) {
					if !stop {
						sum.Incomplete = append(sum.Incomplete, fmt.Sprintf("path limit %d reached with work left", cfg.MaxPaths))
					}
					stop = true
				}
				nv := 0
				for _, n := range vioSeen {
					nv += n
				}
				if nv >= 200 && !cfg.SinglePath && (len(stack) > 0 || active > 0) {
					// the verdict is settled; more paths only repeat it
					if !stop {
						sum.Incomplete = append(sum.Incomplete, fmt.Sprintf("stopped after %d violating obligations with %d prefixes left", nv, len(stack)))
					}
					stop = true
				}
				if cfg.Budget > 0 && time.Since(t0) > cfg.Budget && (len(stack) > 0 || active > 0) {
					if !stop {
						sum.Incomplete = append(sum.Incomplete, fmt.Sprintf("time budget %s exhausted with %d prefixes left", cfg.Budget, len(stack)))
					}
					stop = true
				}
				mu.Unlock()
				cond.Broadcast()
			}
		}(w)
	}
	wg.Wait()
	sum.WallS = time.Since(t0).Seconds()
	return sum
}

func firstPos(p string) string {
	if i := strings.Index(p, " < "); i >= 0 {
		return p[:i]
	}
	return p
}

func (e *Engine) runPath(fn *ssa.Function, harness string, prefix []Decision, pf *Portfolio, concrete *Model, cpicks []int, deadline time.Time) *PathResult {
	r := &Run{deadline: deadline, eng: e, harness: harness, ctx: NewTermCtx(), pcSet: map[int]bool{}, prefix: prefix, solver: pf,
		globals: map[interface{}]*Slot{}, delayBound: 0, concrete: concrete, concretePicks: cpicks,
		timersBySlot: map[*Slot]*Timer{}, uniq: map[string]*Slot{}}
	r.res = &PathResult{Outcome: "ok", Covers: map[string]*CoverSample{}, Assumptions: map[string]bool{}}
	r.sched = newSched(r)
	g0 := r.sched.newG("harness", nil)
	r.sched.start(g0, func() {
		r.runInits()
		r.call(nil, fn.Pos(), fn, nil)
	})
	r.sched.loop(g0)
	if r.sess != nil {
		r.sess.close()
	}
	r.res.Decisions = r.trace
	if e.traceEvents {
		r.res.Observations = append(r.res.Observations, r.sched.events...)
	}
	r.res.SymBranches = r.symBranches
	r.res.Steps = r.steps
	r.res.Transitions = r.sched.trans
	r.res.Goroutines = len(r.sched.gs)
	if r.pos < len(r.prefix) && r.res.Outcome == "ok" {
		r.res.Outcome = "engine-error"
		r.res.Unsupported = append(r.res.Unsupported, "replayed prefix not consumed: non-deterministic re-execution")
	}
	return r.res
}

// runInits executes the package initialisers the harnesses depend on.
func (r *Run) runInits() {
	for _, path := range []string{"io", "net/netip", r.eng.pkg.Pkg.Path()} {
		p := r.eng.prog.ImportedPackage(path)
		if p == nil {
			continue
		}
		if init := p.Func("init"); init != nil {
			r.inInit = true
			r.callFunc(nil, token.NoPos, init, nil, nil)
			r.inInit = false
		}
	}
}

// ---------- JSON helpers ----------

func writeJSON(path string, v interface{}) error {
	b, err := json.MarshalIndent(v, "", " ")
	if err != nil {
		return err
	}
	os.MkdirAll(filepath.Dir(path), 0o755)
	return os.WriteFile(path, b, 0o644)
}
