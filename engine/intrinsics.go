package main

// Intrinsics: the harness API (verif*) and the standard-library functions
// that are modelled instead of executed from their SSA.

import (
	"fmt"
	"go/types"
	"net"
	"net/netip"
	"strconv"
	"strings"

	"golang.org/x/tools/go/ssa"
)

type intrinsicFn func(r *Run, fr *frame, args []Value) Value

var intrinsics map[string]intrinsicFn

const pk = "github.com/jwhited/corebgp."

func init() {
	intrinsics = map[string]intrinsicFn{
		// ---- harness API ----
		pk + "verifU8":   func(r *Run, fr *frame, a []Value) Value { return r.nondet(a[0].(Str).s, "u8", 8) },
		pk + "verifU16":  func(r *Run, fr *frame, a []Value) Value { return r.nondet(a[0].(Str).s, "u16", 16) },
		pk + "verifU32":  func(r *Run, fr *frame, a []Value) Value { return r.nondet(a[0].(Str).s, "u32", 32) },
		pk + "verifU64":  func(r *Run, fr *frame, a []Value) Value { return r.nondet(a[0].(Str).s, "u64", 64) },
		pk + "verifInt":  func(r *Run, fr *frame, a []Value) Value { return r.nondet(a[0].(Str).s, "int", 64) },
		pk + "verifBool": func(r *Run, fr *frame, a []Value) Value { return r.nondet(a[0].(Str).s, "bool", 0) },
		pk + "verifBuf":  inVerifBuf,
		pk + "verifRange": func(r *Run, fr *frame, a []Value) Value {
			// verifRange(name, lo, hi): lo <= result <= hi, variable only as wide as hi needs
			c := r.ctx
			lo, hi := a[1].(*Term), a[2].(*Term)
			name := r.freshName(a[0].(Str).s)
			k := pickWidth(hi.rhi)
			r.nondets = append(r.nondets, NondetInfo{Name: name, Kind: "int", W: k})
			if r.concrete != nil {
				return c.Const(64, r.concrete.Vars[name])
			}
			if k >= 64 {
				v := c.Var(name, 64)
				r.assume(c.And(c.Sle(lo, v), c.Sle(v, hi)), "range")
				return v
			}
			nv := c.Var(name, k)
			v := c.Zext(nv, 64)
			r.assume(c.And(c.Sle(lo, v), c.Sle(v, hi)), "range")
			return v
		},
		pk + "verifAssume": func(r *Run, fr *frame, a []Value) Value {
			r.assume(a[0].(*Term), "")
			return nil
		},
		pk + "verifAssert": func(r *Run, fr *frame, a []Value) Value {
			r.res.Asserts++
			id := a[0].(Str).s
			r.check(id, "assert", a[1].(*Term), "assertion "+id+" violated", "", nil)
			return nil
		},
		pk + "verifAssertKnown": func(r *Run, fr *frame, a []Value) Value {
			r.res.Asserts++
			id := a[0].(Str).s
			r.check(id, "assert", a[1].(*Term), "assertion "+id+" violated", a[2].(Str).s, a[3].(*Term))
			return nil
		},
		pk + "verifCover": func(r *Run, fr *frame, a []Value) Value {
			r.cover(a[0].(Str).s, nil)
			return nil
		},
		pk + "verifCoverIf": func(r *Run, fr *frame, a []Value) Value {
			r.cover(a[0].(Str).s, a[1].(*Term))
			return nil
		},
		pk + "verifChoose": func(r *Run, fr *frame, a []Value) Value {
			n := r.concreteInt(a[1].(*Term), "verifChoose n")
			name := r.freshName(a[0].(Str).s)
			r.nondets = append(r.nondets, NondetInfo{Name: name, Kind: "choose", W: 64, Max: n})
			var k int
			if r.concrete != nil && r.concretePicks == nil {
				k = int(r.concrete.Vars[name])
			} else {
				// (concrete replay consumes the recorded pick so that scheduler picks stay aligned)
				k = r.pick("choose:"+name, n)
			}
			r.res.Assumptions["choice "+name] = true
			r.choices = append(r.choices, [2]string{name, strconv.Itoa(k)})
			return r.ctx.Const(64, uint64(k))
		},
		pk + "verifAnd":     func(r *Run, fr *frame, a []Value) Value { return r.ctx.And(a[0].(*Term), a[1].(*Term)) },
		pk + "verifOr":      func(r *Run, fr *frame, a []Value) Value { return r.ctx.Or(a[0].(*Term), a[1].(*Term)) },
		pk + "verifNot":     func(r *Run, fr *frame, a []Value) Value { return r.ctx.Not(a[0].(*Term)) },
		pk + "verifImplies": func(r *Run, fr *frame, a []Value) Value { return r.ctx.Implies(a[0].(*Term), a[1].(*Term)) },
		pk + "verifIff":     func(r *Run, fr *frame, a []Value) Value { return r.ctx.Eq(a[0].(*Term), a[1].(*Term)) },
		pk + "verifIteInt":  inIte, pk + "verifIteU8": inIte, pk + "verifIteU16": inIte, pk + "verifIteU32": inIte, pk + "verifIteBool": inIte, pk + "verifIteU64": inIte,
		pk + "verifLoopBound": func(r *Run, fr *frame, a []Value) Value {
			r.loopBound = r.concreteInt(a[0].(*Term), "loop bound")
			return nil
		},
		pk + "verifDelayBound": func(r *Run, fr *frame, a []Value) Value {
			// budget counted from now on: d more delays than already used
			r.delayBound = r.sched.delays + r.concreteInt(a[0].(*Term), "delay bound")
			return nil
		},
		pk + "verifTimerMode": func(r *Run, fr *frame, a []Value) Value {
			r.timerMode = r.concreteInt(a[0].(*Term), "timer mode")
			return nil
		},
		pk + "verifRaceDetect": func(r *Run, fr *frame, a []Value) Value {
			r.raceDetect = a[0].(*Term).IsTrue()
			return nil
		},
		pk + "verifTier": func(r *Run, fr *frame, a []Value) Value { return r.ctx.Const(64, uint64(r.eng.tier)) },
		pk + "verifSliceOff": func(r *Run, fr *frame, a []Value) Value {
			s, b := a[0].(SliceVal), a[1].(SliceVal)
			if s.slot == nil || s.slot != b.slot || !pathEq(s.path, b.path) {
				return r.ctx.Const(64, ^uint64(0))
			}
			return r.ctx.Sub(s.off, b.off)
		},
		pk + "verifSameArray": func(r *Run, fr *frame, a []Value) Value {
			s, b := a[0].(SliceVal), a[1].(SliceVal)
			return r.ctx.Bool(s.slot != nil && s.slot == b.slot && pathEq(s.path, b.path))
		},
		pk + "verifQuiesce": func(r *Run, fr *frame, a []Value) Value {
			r.sched.park(&request{kind: rqQuiesce, label: "verifQuiesce"})
			return nil
		},
		pk + "verifYield": func(r *Run, fr *frame, a []Value) Value {
			r.visibleOn("harness-yield", "yield", nil)
			return nil
		},
		pk + "verifGoroutines": func(r *Run, fr *frame, a []Value) Value {
			n := 0
			for _, g := range r.sched.gs {
				if g.state != gDone && g != r.sched.cur {
					n++
				}
			}
			return r.ctx.Const(64, uint64(n))
		},
		pk + "verifBlocked": func(r *Run, fr *frame, a []Value) Value {
			return mkStr(r.sched.describeBlocked())
		},
		pk + "verifGID": func(r *Run, fr *frame, a []Value) Value { return r.ctx.Const(64, uint64(r.sched.cur.id)) },
		pk + "verifObserve": func(r *Run, fr *frame, a []Value) Value {
			r.res.Observations = append(r.res.Observations, a[0].(Str).s+"="+r.observeFmt(a[1]))
			return nil
		},
		pk + "verifUnsupported": func(r *Run, fr *frame, a []Value) Value {
			r.unsupported("harness: " + a[0].(Str).s)
			return nil
		},
		pk + "verifFireTimer": func(r *Run, fr *frame, a []Value) Value {
			t := r.timerOf(a[0])
			fired := false
			r.visibleOn("fire timer", t, func() {
				if t.armed {
					t.armed = false
					t.fired++
					fired = true
					if len(t.ch.buf) < t.ch.cap {
						t.ch.buf = append(t.ch.buf, r.timeValue())
						t.ch.bufVC = append(t.ch.bufVC, nil)
					}
				}
			})
			return r.ctx.Bool(fired)
		},
		pk + "verifTimerArmed": func(r *Run, fr *frame, a []Value) Value {
			if p, ok := a[0].(Ptr); ok && p.slot == nil {
				return r.ctx.F
			}
			return r.ctx.Bool(r.timerOf(a[0]).armed)
		},
		pk + "verifTimerResets": func(r *Run, fr *frame, a []Value) Value {
			return r.ctx.Const(64, uint64(r.timerOf(a[0]).resets))
		},
		pk + "verifTimerDur": func(r *Run, fr *frame, a []Value) Value { return r.timerOf(a[0]).dur },
		pk + "verifTimerPending": func(r *Run, fr *frame, a []Value) Value {
			return r.ctx.Bool(len(r.timerOf(a[0]).ch.buf) > 0)
		},
		pk + "verifSetNow": func(r *Run, fr *frame, a []Value) Value {
			r.clock = a[0].(*Term)
			return nil
		},
		pk + "verifAt": func(r *Run, fr *frame, a []Value) Value {
			c := r.ctx
			s := a[0].(SliceVal)
			i := a[1].(*Term)
			if s.slot == nil {
				return c.Const(8, 0)
			}
			in := c.And(c.Sle(c.Const(64, 0), i), c.Slt(i, r.sliceLen(s)))
			if in.IsFalse() {
				return c.Const(8, 0)
			}
			return c.Ite(in, r.elemAt(s, i).(*Term), c.Const(8, 0))
		},
		pk + "verifAtU32": func(r *Run, fr *frame, a []Value) Value {
			c := r.ctx
			s := a[0].(SliceVal)
			i := a[1].(*Term)
			if s.slot == nil {
				return c.Const(32, 0)
			}
			in := c.And(c.Sle(c.Const(64, 0), i), c.Slt(i, r.sliceLen(s)))
			if in.IsFalse() {
				return c.Const(32, 0)
			}
			return c.Ite(in, r.elemAt(s, i).(*Term), c.Const(32, 0))
		},
		pk + "verifAssertBytesEq": inAssertBytesEq,
		pk + "verifWant": func(r *Run, fr *frame, a []Value) Value {
			r.res.Wanted = append(r.res.Wanted, a[0].(Str).s)
			return nil
		},
		pk + "verifEngineOnly": func(r *Run, fr *frame, a []Value) Value {
			r.engineOnly = true
			return nil
		},
		pk + "verifNote": func(r *Run, fr *frame, a []Value) Value {
			r.res.Assumptions[a[0].(Str).s] = true
			return nil
		},
		pk + "verifMulHi":         nil,

		// ---- standard library ----
		"errors.As":   inErrorsAs,
		"fmt.Errorf":  inErrorf,
		"fmt.Sprintf": func(r *Run, fr *frame, a []Value) Value { return r.opaqueStr("sprintf") },
		"fmt.Sprint":  func(r *Run, fr *frame, a []Value) Value { return r.opaqueStr("sprint") },
		"fmt.Println": func(r *Run, fr *frame, a []Value) Value { return Tuple{r.ctx.Const(64, 0), Iface{}} },
		"fmt.Printf":  func(r *Run, fr *frame, a []Value) Value { return Tuple{r.ctx.Const(64, 0), Iface{}} },
		"bytes.Equal": inBytesEqual,
		"unique.Make": inUniqueMake,
		"strconv.Itoa": func(r *Run, fr *frame, a []Value) Value {
			t := a[0].(*Term)
			if t.IsConst() {
				return mkStr(strconv.Itoa(int(sext64(t.c, 64))))
			}
			return r.opaqueStrArgs("itoa", t)
		},
		"time.NewTimer":           inNewTimer,
		"(*time.Timer).Stop":      inTimerStop,
		"(*time.Timer).Reset":     inTimerReset,
		"time.Now":                func(r *Run, fr *frame, a []Value) Value { return r.timeValue() },
		"time.Since":              inTimeSince,
		"time.Until": func(r *Run, fr *frame, a []Value) Value {
			return r.ctx.Sub(r.timeField(a[0], "ext"), r.nowTerm())
		},
		"(time.Time).Add": func(r *Run, fr *frame, a []Value) Value {
			return r.timeWith(a[0], r.ctx.Add(r.timeField(a[0], "ext"), a[1].(*Term)))
		},
		"(time.Time).Sub": func(r *Run, fr *frame, a []Value) Value {
			return r.ctx.Sub(r.timeField(a[0], "ext"), r.timeField(a[1], "ext"))
		},
		"(time.Time).After": func(r *Run, fr *frame, a []Value) Value {
			return r.ctx.Slt(r.timeField(a[1], "ext"), r.timeField(a[0], "ext"))
		},
		"(time.Time).Before": func(r *Run, fr *frame, a []Value) Value {
			return r.ctx.Slt(r.timeField(a[0], "ext"), r.timeField(a[1], "ext"))
		},
		"(time.Time).Equal": func(r *Run, fr *frame, a []Value) Value {
			return r.ctx.Eq(r.timeField(a[0], "ext"), r.timeField(a[1], "ext"))
		},
		"(time.Time).IsZero": func(r *Run, fr *frame, a []Value) Value {
			c := r.ctx
			return c.And(c.Eq(r.timeField(a[0], "wall"), c.Const(64, 0)), c.Eq(r.timeField(a[0], "ext"), c.Const(64, 0)))
		},
		"(time.Duration).Seconds": inDurationSeconds,
		"(*sync.Once).Do":         inOnceDo,
		"(*sync.Mutex).Lock":      inMutexLock,
		"(*sync.Mutex).Unlock":    inMutexUnlock,
		"(*sync.WaitGroup).Add":   inWGAdd,
		"(*sync.WaitGroup).Done":  func(r *Run, fr *frame, a []Value) Value { return inWGAdd(r, fr, []Value{a[0], r.ctx.Const(64, ^uint64(0))}) },
		"(*sync.WaitGroup).Wait":  inWGWait,
		"context.Background":      func(r *Run, fr *frame, a []Value) Value { return r.newCtx(nil) },
		"context.WithCancel":      inWithCancel,
		"(*net.Dialer).DialContext": inDialContext,
		"net.ResolveTCPAddr": func(r *Run, fr *frame, a []Value) Value {
			return Tuple{Ptr{}, Iface{}}
		},
		"net.JoinHostPort": func(r *Run, fr *frame, a []Value) Value {
			h, p := a[0].(Str), a[1].(Str)
			if !h.sym && !p.sym {
				return mkStr(net.JoinHostPort(h.s, p.s))
			}
			return r.opaqueStrArgs("hostport", h, p)
		},
		"net.SplitHostPort": inSplitHostPort,
		"(net/netip.Addr).String": func(r *Run, fr *frame, a []Value) Value {
			if s, ok := r.concreteAddrString(a[0]); ok {
				return mkStr(s) // fully concrete address: its real textual form
			}
			return r.opaqueStrArgs("addr", a[0])
		},
		"net/netip.ParseAddr": inParseAddr,
	}
	delete(intrinsics, pk+"verifMulHi")
	registerAtomics()
	for k, v := range atomicIntrinsics {
		intrinsics[k] = v
	}
	intrinsics["(*sync.RWMutex).Lock"] = inRWLock
	intrinsics["(*sync.RWMutex).Unlock"] = inRWUnlock
	intrinsics["(*sync.RWMutex).RLock"] = inRWRLock
	intrinsics["(*sync.RWMutex).RUnlock"] = inRWRUnlock
	intrinsics["(*sync.Mutex).TryLock"] = inMutexTryLock
	intrinsics["internal/bytealg.MakeNoZero"] = inMakeNoZero
	intrinsics["internal/bytealg.IndexByte"] = inIndexByte
	intrinsics["internal/bytealg.IndexByteString"] = inIndexByteString
	intrinsics["internal/bytealg.Count"] = inCountByte
	intrinsics["internal/bytealg.Compare"] = inBytesCompare
}

func inIte(r *Run, fr *frame, a []Value) Value {
	return r.ctx.Ite(a[0].(*Term), a[1].(*Term), a[2].(*Term))
}

// verifBuf(name, minLen, maxLen) []byte: symbolic contents and length.
func inVerifBuf(r *Run, fr *frame, a []Value) Value {
	c := r.ctx
	name := r.freshName(a[0].(Str).s)
	lo := r.concreteInt(a[1].(*Term), "verifBuf min")
	hi := r.concreteInt(a[2].(*Term), "verifBuf max")
	r.nondets = append(r.nondets, NondetInfo{Name: name, Kind: "buf", W: 8, Max: hi})
	if r.concrete != nil {
		n := lo // fixed-length buffers have no length variable in the model
		if lo != hi {
			n = int(r.concrete.Vars[name+"_len"])
			if n < lo {
				n = lo
			}
			if n > hi {
				n = hi
			}
		}
		node := &ArrNode{kind: ArrZero, elemW: 8}
		cells := r.concrete.Arrays[name]
		for i := 0; i < n; i++ {
			if v, ok := cells[uint64(i)]; ok && v != 0 {
				node = arrStore(node, c.Const(64, uint64(i)), c.Const(8, v))
			}
		}
		nt := c.Const(64, uint64(n))
		sl := r.newSlot(&ArrVal{node: node, n: nt}, name)
		return SliceVal{slot: sl, off: c.Const(64, 0), len: nt, cap: nt}
	}
	var n *Term
	if lo == hi {
		n = c.Const(64, uint64(lo))
	} else {
		// the length is a variable of just enough bits, zero-extended to int
		k := pickWidth(uint64(hi))
		nv := c.Var(name+"_len", k)
		nv.rlo, nv.rhi = 0, mask(k)
		cons := c.And(c.Ule(c.Const(k, uint64(lo)), nv), c.Ule(nv, c.Const(k, uint64(hi))))
		nv.rlo, nv.rhi = uint64(lo), uint64(hi)
		r.addPC(cons)
		n = c.Zext(nv, 64)
	}
	sl := r.newSlot(&ArrVal{node: &ArrNode{kind: ArrBase, elemW: 8, name: name}, n: n}, name)
	return SliceVal{slot: sl, off: c.Const(64, 0), len: n, cap: n}
}

// verifAssertBytesEq(id, a, b): len(a)==len(b) and for a fresh index k < len: a[k]==b[k].
func inAssertBytesEq(r *Run, fr *frame, a []Value) Value {
	c := r.ctx
	id := a[0].(Str).s
	x, y := a[1].(SliceVal), a[2].(SliceVal)
	r.res.Asserts++
	lx, ly := r.sliceLen(x), r.sliceLen(y)
	cond := c.Eq(lx, ly)
	if x.slot != nil && y.slot != nil {
		var k *Term
		kn := r.freshName("k_" + id)
		if r.concrete != nil {
			k = c.Const(64, r.concrete.Vars[kn])
		} else {
			k = c.Var(kn, 64)
		}
		ex, ey := r.elemAt(x, k).(*Term), r.elemAt(y, k).(*Term)
		cond = c.And(cond, c.Implies(c.Ult(k, lx), c.Eq(ex, ey)))
	}
	r.check(id, "assert", cond, "byte slices differ ("+id+")", "", nil)
	return nil
}

func (r *Run) opaqueStr(kind string, args ...Value) Str {
	r.symStrSeq++
	return Str{sym: true, kind: "opaque:" + kind, id: r.symStrSeq}
}

func (r *Run) opaqueStrArgs(kind string, args ...Value) Str {
	r.symStrSeq++
	return Str{sym: true, kind: kind, args: args, id: r.symStrSeq}
}

func (r *Run) symStrEq(a, b Str) *Term {
	c := r.ctx
	if a.sym && b.sym {
		if a.id == b.id {
			return c.T
		}
		if a.kind == b.kind && (a.kind == "addr" || a.kind == "hostport" || a.kind == "itoa") {
			res := c.T
			for i := range a.args {
				res = c.And(res, r.valEq(a.args[i], b.args[i]))
			}
			return res
		}
		if strings.HasPrefix(a.kind, "opaque") || strings.HasPrefix(b.kind, "opaque") {
			r.unsupported("equality of opaque strings")
		}
		return c.F
	}
	// symbolic vs concrete
	s, k := a, b
	if b.sym {
		s, k = b, a
	}
	if s.kind == "addr" {
		// compare against the parse of the concrete string
		if av, ok := r.parseAddrConcrete(k.s); ok {
			return r.valEq(s.args[0], av)
		}
		return c.F
	}
	r.unsupported("equality of symbolic and concrete string")
	return nil
}

// ---------- errors / fmt ----------

func (r *Run) lookupMethodByName(t types.Type, name string) *ssa.Function {
	ms := r.eng.prog.MethodSets.MethodSet(t)
	for i := 0; i < ms.Len(); i++ {
		sel := ms.At(i)
		if sel.Obj().Name() == name {
			return r.eng.prog.MethodValue(sel)
		}
	}
	return nil
}

func inErrorsAs(r *Run, fr *frame, a []Value) Value {
	err := a[0].(Iface)
	target := a[1].(Iface)
	if target.t == nil {
		r.goPanic("errors: target cannot be nil")
	}
	pt, ok := target.t.Underlying().(*types.Pointer)
	if !ok {
		r.goPanic("errors: target must be a non-nil pointer")
	}
	tt := pt.Elem()
	_, targetIsIface := tt.Underlying().(*types.Interface)
	var as func(e Iface) bool
	as = func(e Iface) bool {
		for {
			if e.t == nil {
				return false
			}
			match := false
			if targetIsIface {
				match = types.Implements(e.t, tt.Underlying().(*types.Interface))
			} else {
				match = types.Identical(e.t, tt)
			}
			if match {
				if targetIsIface {
					r.store(target.v.(Ptr), e)
				} else {
					r.store(target.v.(Ptr), e.v)
				}
				return true
			}
			if m := r.lookupMethodByName(e.t, "As"); m != nil {
				r.unsupported("errors.As: custom As method")
			}
			m := r.lookupMethodByName(e.t, "Unwrap")
			if m == nil {
				return false
			}
			res := m.Signature.Results()
			if res.Len() != 1 {
				return false
			}
			out := r.call(fr, fr.curPos, m, []Value{e.v})
			switch o := out.(type) {
			case Iface:
				if _, isI := res.At(0).Type().Underlying().(*types.Interface); !isI {
					return false
				}
				if o.t == nil {
					return false
				}
				e = o
				continue
			case SliceVal:
				n := r.concreteInt(r.sliceLen(o), "Unwrap() []error length")
				for i := 0; i < n; i++ {
					el := r.elemAt(o, r.ctx.Const(64, uint64(i))).(Iface)
					if el.t == nil {
						continue
					}
					if as(el) {
						return true
					}
				}
				return false
			default:
				return false
			}
		}
	}
	return r.ctx.Bool(as(err))
}

func (r *Run) namedType(pkgPath, name string) types.Type {
	p := r.eng.prog.ImportedPackage(pkgPath)
	if p == nil {
		r.unsupported("package not loaded: " + pkgPath)
	}
	obj := p.Pkg.Scope().Lookup(name)
	if obj == nil {
		r.unsupported("type not found: " + pkgPath + "." + name)
	}
	return obj.Type()
}

func inErrorf(r *Run, fr *frame, a []Value) Value {
	format := a[0].(Str)
	if format.sym {
		r.unsupported("fmt.Errorf with symbolic format")
	}
	args := a[1].(SliceVal)
	// locate %w verbs
	argi := 0
	var wrapped []int
	f := format.s
	for i := 0; i < len(f); i++ {
		if f[i] != '%' {
			continue
		}
		i++
		for i < len(f) && strings.ContainsRune("+-# 0123456789.[]*", rune(f[i])) {
			i++
		}
		if i >= len(f) {
			break
		}
		if f[i] == '%' {
			continue
		}
		if f[i] == 'w' {
			wrapped = append(wrapped, argi)
		}
		argi++
	}
	msg := r.opaqueStr("errorf")
	switch len(wrapped) {
	case 0:
		t := r.namedType("errors", "errorString")
		sl := r.newSlot(&Struct{f: []Value{msg}}, "errorString")
		return Iface{t: types.NewPointer(t), v: Ptr{slot: sl}}
	case 1:
		ev := r.elemAt(args, r.ctx.Const(64, uint64(wrapped[0]))).(Iface)
		// the operand of %w must be an error; otherwise fmt produces a plain error
		errT := types.Universe.Lookup("error").Type().Underlying().(*types.Interface)
		if ev.t == nil || !types.Implements(ev.t, errT) {
			t := r.namedType("errors", "errorString")
			sl := r.newSlot(&Struct{f: []Value{msg}}, "errorString")
			return Iface{t: types.NewPointer(t), v: Ptr{slot: sl}}
		}
		t := r.namedType("fmt", "wrapError")
		sl := r.newSlot(&Struct{f: []Value{msg, ev}}, "wrapError")
		return Iface{t: types.NewPointer(t), v: Ptr{slot: sl}}
	}
	r.unsupported("fmt.Errorf with several %w")
	return nil
}

func inBytesEqual(r *Run, fr *frame, a []Value) Value {
	c := r.ctx
	x, y := a[0].(SliceVal), a[1].(SliceVal)
	lx, ly := r.sliceLen(x), r.sliceLen(y)
	if !lx.IsConst() || !ly.IsConst() {
		r.unsupported("bytes.Equal on symbolic lengths")
	}
	if lx.c != ly.c {
		return c.F
	}
	res := c.T
	for i := uint64(0); i < lx.c; i++ {
		k := c.Const(64, i)
		res = c.And(res, c.Eq(r.elemAt(x, k).(*Term), r.elemAt(y, k).(*Term)))
	}
	return res
}

// unique.Make[T](v) Handle[T]: canonical pointer per (concrete) value.
func inUniqueMake(r *Run, fr *frame, a []Value) Value {
	key := r.show(a[0])
	sl := r.uniq[key]
	if sl == nil {
		sl = r.newSlot(a[0], "unique:"+key)
		sl.noRace = true
		r.uniq[key] = sl
	}
	return &Struct{f: []Value{Ptr{slot: sl}}}
}

// ---------- time ----------

// time.Time model: a value obtained from time.Now() has wall = hasMonotonic (so that it differs from
// the zero Time) and ext = the (symbolic) clock in nanoseconds; Add/Sub/After/Before/Equal/IsZero/
// Since/Until work on ext alone (monotonic-clock semantics of package time).
func (r *Run) nowTerm() *Term {
	if r.clock == nil {
		return r.ctx.Const(64, 0)
	}
	return r.clock
}

func (r *Run) timeValue() Value {
	t := r.namedType("time", "Time")
	z := r.zero(t).(*Struct)
	st := t.Underlying().(*types.Struct)
	nz := &Struct{f: append([]Value(nil), z.f...)}
	for i := 0; i < st.NumFields(); i++ {
		switch st.Field(i).Name() {
		case "ext":
			nz.f[i] = r.nowTerm()
		case "wall":
			nz.f[i] = r.ctx.Const(64, 1<<63)
		}
	}
	return nz
}

func (r *Run) timeField(v Value, name string) *Term {
	t, ok := v.(*Struct)
	st := r.namedType("time", "Time").Underlying().(*types.Struct)
	if ok {
		for i := 0; i < st.NumFields(); i++ {
			if st.Field(i).Name() == name {
				return t.f[i].(*Term)
			}
		}
	}
	r.unsupported("time.Time layout")
	return nil
}

func (r *Run) timeWith(v Value, ext *Term) Value {
	t := v.(*Struct)
	st := r.namedType("time", "Time").Underlying().(*types.Struct)
	nz := &Struct{f: append([]Value(nil), t.f...)}
	for i := 0; i < st.NumFields(); i++ {
		if st.Field(i).Name() == "ext" {
			nz.f[i] = ext
		}
	}
	return nz
}

func inTimeSince(r *Run, fr *frame, a []Value) Value {
	t := a[0].(*Struct)
	st := r.namedType("time", "Time").Underlying().(*types.Struct)
	now := r.clock
	if now == nil {
		now = r.ctx.Const(64, 0)
	}
	for i := 0; i < st.NumFields(); i++ {
		if st.Field(i).Name() == "ext" {
			return r.ctx.Sub(now, t.f[i].(*Term))
		}
	}
	r.unsupported("time.Time layout")
	return nil
}

func inDurationSeconds(r *Run, fr *frame, a []Value) Value {
	c := r.ctx
	d := a[0].(*Term)
	sec := c.SDiv(d, c.Const(64, 1_000_000_000))
	rem := c.SRem(d, c.Const(64, 1_000_000_000))
	if d.IsConst() {
		return Float{f: float64(sext64(sec.c, 64)) + float64(sext64(rem.c, 64))/1e9}
	}
	// exact only for whole seconds below 2^53: make that an obligation of the model
	ok := c.And(c.Eq(rem, c.Const(64, 0)), c.And(c.Sle(c.Const(64, 0), sec), c.Slt(sec, c.Const(64, 1<<53))))
	r.check("float-model", "model", ok, "time.Duration.Seconds on a value that is not a whole number of seconds (float model not exact)", "", nil)
	return Float{sym: true, intTerm: sec}
}

func (r *Run) timerOf(v Value) *Timer {
	p, ok := v.(Ptr)
	if !ok || p.slot == nil {
		r.goPanic("nil *time.Timer dereference")
	}
	t := r.timersBySlot[p.slot]
	if t == nil {
		r.unsupported("time.Timer not created by time.NewTimer")
	}
	return t
}

func inNewTimer(r *Run, fr *frame, a []Value) Value {
	d := a[0].(*Term)
	tt := r.namedType("time", "Timer")
	sv := r.zero(tt).(*Struct)
	st := tt.Underlying().(*types.Struct)
	ch := r.newChan(1, r.namedType("time", "Time"))
	nf := append([]Value(nil), sv.f...)
	for i := 0; i < st.NumFields(); i++ {
		if st.Field(i).Name() == "C" {
			nf[i] = ch
		}
	}
	sl := r.newSlot(&Struct{f: nf}, "time.Timer")
	sl.noRace = true
	t := &Timer{id: len(r.sched.timers) + 1, ch: ch, armed: true, dur: d, armAt: r.clock, slot: sl}
	ch.timer = t
	r.timersBySlot[sl] = t
	r.sched.timers = append(r.sched.timers, t)
	return Ptr{slot: sl}
}

func inTimerStop(r *Run, fr *frame, a []Value) Value {
	t := r.timerOf(a[0])
	was := false
	r.visibleOn("Timer.Stop", t, func() {
		was = t.armed
		t.armed = false
	})
	return r.ctx.Bool(was)
}

func inTimerReset(r *Run, fr *frame, a []Value) Value {
	t := r.timerOf(a[0])
	was := false
	r.visibleOn("Timer.Reset", t, func() {
		was = t.armed
		t.armed = true
		t.dur = a[1].(*Term)
		t.armAt = r.clock
		t.resets++
	})
	return r.ctx.Bool(was)
}

func (r *Run) timerMayFire(t *Timer) bool {
	switch r.timerMode {
	case 0:
		return t.dur.IsConst() && sext64(t.dur.c, 64) <= 0
	case 1:
		return true
	}
	return false
}

func (r *Run) onTimerFired(t *Timer) {}

// ---------- sync ----------

func locKey(v Value) string {
	p := v.(Ptr)
	if p.slot == nil {
		return "nil"
	}
	k := fmt.Sprintf("s%d", p.slot.id)
	for _, e := range p.path {
		if e.idx == nil {
			k += fmt.Sprintf(".%d", e.field)
		} else {
			k += fmt.Sprintf("[%d]", e.idx.c)
		}
	}
	return k
}

func (r *Run) fieldPath(t types.Type, names ...string) []pathElem {
	var p []pathElem
	for _, n := range names {
		st := t.Underlying().(*types.Struct)
		found := false
		for i := 0; i < st.NumFields(); i++ {
			if st.Field(i).Name() == n {
				p = append(p, pathElem{field: i})
				t = st.Field(i).Type()
				found = true
				break
			}
		}
		if !found {
			r.unsupported("field " + n + " not found in " + t.String())
		}
	}
	return p
}

func inOnceDo(r *Run, fr *frame, a []Value) Value {
	p := a[0].(Ptr)
	if p.slot == nil {
		r.goPanic("nil *sync.Once")
	}
	ot := r.namedType("sync", "Once")
	donePath := append(append([]pathElem(nil), p.path...), r.fieldPath(ot, "done", "v")...)
	dp := Ptr{slot: p.slot, path: donePath}
	key := locKey(p)
	g := r.sched.cur
	run := false
	r.blockUntilOn("Once.Do", "once:"+key, func() bool { return r.sched.onceRun[key] == 0 }, func() {
		d := r.walk(p.slot.v, donePath).(*Term)
		if d.IsConst() && d.c == 0 {
			run = true
			r.sched.onceRun[key] = g.id + 1
		} else if vc := r.sched.mutexVC["once:"+key]; vc != nil {
			joinVC(g.vc, vc)
		}
	})
	if run {
		r.call(fr, fr.curPos, a[1], nil)
		r.visibleOn("Once.Do done", "once:"+key, func() {
			p.slot.v = r.update(p.slot.v, dp.path, r.ctx.Const(32, 1))
			r.sched.onceRun[key] = 0
			r.sched.mutexVC["once:"+key] = copyVC(g.vc)
			g.vc[g.id]++
		})
	}
	return nil
}

func inMutexLock(r *Run, fr *frame, a []Value) Value {
	p := a[0].(Ptr)
	if p.slot == nil {
		r.goPanic("nil *sync.Mutex")
	}
	mt := r.namedType("sync", "Mutex")
	sp := append(append([]pathElem(nil), p.path...), r.fieldPath(mt, "state")...)
	key := locKey(p)
	g := r.sched.cur
	r.blockUntilOn("Mutex.Lock", "mu:"+key, func() bool {
		s := r.walk(p.slot.v, sp).(*Term)
		return s.IsConst() && s.c == 0
	}, func() {
		p.slot.v = r.update(p.slot.v, sp, r.ctx.Const(32, 1))
		if vc := r.sched.mutexVC[key]; vc != nil {
			joinVC(g.vc, vc)
		}
	})
	return nil
}

func inMutexUnlock(r *Run, fr *frame, a []Value) Value {
	p := a[0].(Ptr)
	mt := r.namedType("sync", "Mutex")
	sp := append(append([]pathElem(nil), p.path...), r.fieldPath(mt, "state")...)
	key := locKey(p)
	g := r.sched.cur
	bad := false
	r.visibleOn("Mutex.Unlock", "mu:"+key, func() {
		s := r.walk(p.slot.v, sp).(*Term)
		if s.IsConst() && s.c == 0 {
			bad = true
			return
		}
		p.slot.v = r.update(p.slot.v, sp, r.ctx.Const(32, 0))
		r.sched.mutexVC[key] = copyVC(g.vc)
		g.vc[g.id]++
	})
	if bad {
		r.goPanic("sync: unlock of unlocked mutex")
	}
	return nil
}

func inWGAdd(r *Run, fr *frame, a []Value) Value {
	key := locKey(a[0])
	d := int(sext64(a[1].(*Term).c, 64))
	g := r.sched.cur
	neg := false
	r.visibleOn("WaitGroup.Add", "wg:"+key, func() {
		r.sched.wgCount[key] += d
		if r.sched.wgCount[key] < 0 {
			neg = true
		}
		if d < 0 {
			vc := r.sched.wgVC[key]
			if vc == nil {
				vc = map[int]int{}
				r.sched.wgVC[key] = vc
			}
			joinVC(vc, g.vc)
			g.vc[g.id]++
		}
	})
	if neg {
		r.goPanic("sync: negative WaitGroup counter")
	}
	return nil
}

func inWGWait(r *Run, fr *frame, a []Value) Value {
	key := locKey(a[0])
	g := r.sched.cur
	r.blockUntilOn("WaitGroup.Wait", "wg:"+key, func() bool { return r.sched.wgCount[key] == 0 }, func() {
		if vc := r.sched.wgVC[key]; vc != nil {
			joinVC(g.vc, vc)
		}
	})
	return nil
}

// ---------- context / dial ----------

type CtxModel struct {
	done      *Chan
	cancelled bool
}

func (r *Run) newCtx(parent *CtxModel) Value {
	r.ctxs++
	cm := &CtxModel{}
	if parent != nil || true {
		cm.done = r.newChan(0, types.NewStruct(nil, nil))
	}
	ct := r.namedType("context", "Context")
	return Iface{t: ct, v: &BoundIntrinsicRecv{typ: "ctx", v: cm}}
}

func inWithCancel(r *Run, fr *frame, a []Value) Value {
	ctx := r.newCtx(nil).(Iface)
	cm := ctx.v.(*BoundIntrinsicRecv).v.(*CtxModel)
	cancel := &BoundIntrinsic{name: "ctx.cancel", recv: cm}
	return Tuple{ctx, cancel}
}

func (r *Run) callBoundIntrinsic(fr *frame, b *BoundIntrinsic, args []Value) Value {
	switch b.name {
	case "ctx.cancel":
		cm := b.recv.(*CtxModel)
		g := r.sched.cur
		r.visibleOn("context cancel", cm.done, func() {
			if !cm.cancelled {
				cm.cancelled = true
				cm.done.closed = true
				cm.done.closeVC = copyVC(g.vc)
				g.vc[g.id]++
			}
		})
		return nil
	case "ctx.Done":
		return b.recv.(*CtxModel).done
	case "ctx.Err":
		cm := b.recv.(*CtxModel)
		if cm.cancelled {
			t := r.namedType("errors", "errorString")
			sl := r.newSlot(&Struct{f: []Value{mkStr("context canceled")}}, "ctxerr")
			return Iface{t: types.NewPointer(t), v: Ptr{slot: sl}}
		}
		return Iface{}
	}
	r.unsupported("bound intrinsic " + b.name)
	return nil
}

// DialContext is delegated to the harness function verifDialHook(ctx, addr) (net.Conn, error).
func inDialContext(r *Run, fr *frame, a []Value) Value {
	hook := r.eng.pkg.Func("verifDialHook")
	if hook == nil {
		r.unsupported("DialContext reached but the harness defines no verifDialHook")
	}
	return r.call(fr, fr.curPos, hook, []Value{a[1], a[3]})
}

func inSplitHostPort(r *Run, fr *frame, a []Value) Value {
	s := a[0].(Str)
	if s.sym {
		if s.kind == "hostport" {
			return Tuple{s.args[0], s.args[1], Iface{}}
		}
		r.unsupported("SplitHostPort of " + s.kind)
	}
	h, p, err := net.SplitHostPort(s.s)
	if err != nil {
		t := r.namedType("errors", "errorString")
		sl := r.newSlot(&Struct{f: []Value{mkStr(err.Error())}}, "splitErr")
		return Tuple{mkStr(""), mkStr(""), Iface{t: types.NewPointer(t), v: Ptr{slot: sl}}}
	}
	return Tuple{mkStr(h), mkStr(p), Iface{}}
}

// concreteAddrString renders a netip.Addr value whose bits and kind are all concrete.
func (r *Run) concreteAddrString(v Value) (string, bool) {
	st, ok := v.(*Struct)
	if !ok || len(st.f) != 2 {
		return "", false
	}
	u, ok := st.f[0].(*Struct)
	if !ok || len(u.f) != 2 {
		return "", false
	}
	hi, ok1 := u.f[0].(*Term)
	lo, ok2 := u.f[1].(*Term)
	if !ok1 || !ok2 || !hi.IsConst() || !lo.IsConst() {
		return "", false
	}
	h, ok := st.f[1].(*Struct)
	if !ok || len(h.f) != 1 {
		return "", false
	}
	zp, ok := h.f[0].(Ptr)
	if !ok {
		return "", false
	}
	if zp.slot == nil {
		return netip.Addr{}.String(), true
	}
	d, ok := zp.slot.v.(*Struct)
	if !ok || len(d.f) != 2 {
		return "", false
	}
	is6, ok1 := d.f[0].(*Term)
	zone, ok2 := d.f[1].(Str)
	if !ok1 || !ok2 || !is6.IsConst() || zone.sym {
		return "", false
	}
	if is6.IsFalse() {
		x := uint32(lo.c)
		return netip.AddrFrom4([4]byte{byte(x >> 24), byte(x >> 16), byte(x >> 8), byte(x)}).String(), true
	}
	var b [16]byte
	for i := 0; i < 8; i++ {
		b[i] = byte(hi.c >> uint(56-8*i))
		b[8+i] = byte(lo.c >> uint(56-8*i))
	}
	ad := netip.AddrFrom16(b)
	if zone.s != "" {
		ad = ad.WithZone(zone.s)
	}
	return ad.String(), true
}

// parseAddrConcrete builds the netip.Addr value for a concrete textual address.
func (r *Run) parseAddrConcrete(s string) (Value, bool) {
	ad, err := netip.ParseAddr(s)
	if err != nil {
		return nil, false
	}
	c := r.ctx
	var hi, lo uint64
	var detail *Struct
	if ad.Is4() {
		b := ad.As4()
		hi, lo = 0, 0xffff00000000|uint64(b[0])<<24|uint64(b[1])<<16|uint64(b[2])<<8|uint64(b[3])
		detail = &Struct{f: []Value{c.F, mkStr("")}}
	} else {
		b := ad.As16()
		for i := 0; i < 8; i++ {
			hi = hi<<8 | uint64(b[i])
			lo = lo<<8 | uint64(b[8+i])
		}
		detail = &Struct{f: []Value{c.T, mkStr(ad.Zone())}}
	}
	handle := inUniqueMake(r, nil, []Value{detail})
	return &Struct{f: []Value{&Struct{f: []Value{c.Const(64, hi), c.Const(64, lo)}}, handle}}, true
}

func inParseAddr(r *Run, fr *frame, a []Value) Value {
	s := a[0].(Str)
	if s.sym && s.kind == "addr" {
		return Tuple{s.args[0], Iface{}}
	}
	if !s.sym {
		if v, ok := r.parseAddrConcrete(s.s); ok {
			return Tuple{v, Iface{}}
		}
		t := r.namedType("errors", "errorString")
		sl := r.newSlot(&Struct{f: []Value{mkStr("ParseAddr: unable to parse IP")}}, "parseErr")
		return Tuple{r.zero(r.namedType("net/netip", "Addr")), Iface{t: types.NewPointer(t), v: Ptr{slot: sl}}}
	}
	r.unsupported("netip.ParseAddr of non-addr string")
	return nil
}

// observeFmt renders an observed value canonically (same format as the native twin).
func (r *Run) observeFmt(v Value) string {
	val := func(t *Term) (uint64, bool) {
		if t.IsConst() {
			return t.c, true
		}
		if r.model != nil {
			m := *r.model
			m.Total = true
			x, _ := m.Eval(t)
			return x, true
		}
		return 0, false
	}
	switch x := v.(type) {
	case Iface:
		if x.t == nil {
			return "nil"
		}
		if t, ok := x.v.(*Term); ok {
			c, _ := val(t)
			if t.w == 0 {
				if c != 0 {
					return "true"
				}
				return "false"
			}
			if _, signed, _ := basicWidth(x.t); signed {
				return fmt.Sprint(sext64(c, t.w))
			}
			return fmt.Sprint(c)
		}
		return r.observeFmt(x.v)
	case *Term:
		c, _ := val(x)
		return fmt.Sprint(c)
	case Str:
		if x.sym {
			return "<symbolic string>"
		}
		return x.s
	case SliceVal:
		if x.slot == nil {
			return "hex:"
		}
		n := r.concreteInt(x.len, "observe length")
		s := "hex:"
		for i := 0; i < n; i++ {
			e, ok := r.elemAt(x, r.ctx.Const(64, uint64(i))).(*Term)
			if !ok {
				return "<non-scalar slice>"
			}
			c, _ := val(e)
			s += fmt.Sprintf("%02x", c)
		}
		return s
	}
	return r.show(v)
}

// ---------- sync/atomic, sync.RWMutex, TryLock ----------
// corebgp itself uses none of these; they are modelled so that a change to the library which
// introduces them is still decided (as synchronising, sequentially consistent visible operations)
// instead of ending as "unsupported".

func (r *Run) atomicOp(label string, pv Value, f func(old Value) (nv Value, ret Value)) Value {
	p := pv.(Ptr)
	if p.slot == nil {
		r.goPanic("nil pointer dereference (atomic)")
	}
	key := "atomic:" + locKey(p)
	g := r.sched.cur
	var ret Value
	r.visibleOn(label, key, func() {
		if vc := r.sched.mutexVC[key]; vc != nil {
			joinVC(g.vc, vc)
		}
		nv, rv := f(r.walk(p.slot.v, p.path))
		if nv != nil {
			p.slot.v = r.update(p.slot.v, p.path, nv)
		}
		ret = rv
		r.sched.mutexVC[key] = copyVC(g.vc)
		g.vc[g.id]++
	})
	return ret
}

func registerAtomics() {
	for _, ty := range []string{"Int32", "Int64", "Uint32", "Uint64", "Uintptr", "Pointer"} {
		ty := ty
		atomicIntrinsics["sync/atomic.Load"+ty] = func(r *Run, fr *frame, a []Value) Value {
			return r.atomicOp("atomic.Load", a[0], func(old Value) (Value, Value) { return nil, old })
		}
		atomicIntrinsics["sync/atomic.Store"+ty] = func(r *Run, fr *frame, a []Value) Value {
			return r.atomicOp("atomic.Store", a[0], func(old Value) (Value, Value) { return a[1], nil })
		}
		atomicIntrinsics["sync/atomic.Swap"+ty] = func(r *Run, fr *frame, a []Value) Value {
			return r.atomicOp("atomic.Swap", a[0], func(old Value) (Value, Value) { return a[1], old })
		}
		atomicIntrinsics["sync/atomic.CompareAndSwap"+ty] = func(r *Run, fr *frame, a []Value) Value {
			return r.atomicOp("atomic.CompareAndSwap", a[0], func(old Value) (Value, Value) {
				c := r.ctx
				eq := r.valEq(old, a[1])
				if eq.IsTrue() {
					return a[2], eq
				}
				if eq.IsFalse() {
					return nil, eq
				}
				ot, ok1 := old.(*Term)
				nt, ok2 := a[2].(*Term)
				if !ok1 || !ok2 {
					r.unsupported("atomic compare-and-swap of pointers with a symbolic outcome")
				}
				return c.Ite(eq, nt, ot), eq
			})
		}
		if ty == "Pointer" {
			continue
		}
		atomicIntrinsics["sync/atomic.Add"+ty] = func(r *Run, fr *frame, a []Value) Value {
			return r.atomicOp("atomic.Add", a[0], func(old Value) (Value, Value) {
				nv := r.ctx.Add(old.(*Term), a[1].(*Term))
				return nv, nv
			})
		}
		atomicIntrinsics["sync/atomic.And"+ty] = func(r *Run, fr *frame, a []Value) Value {
			return r.atomicOp("atomic.And", a[0], func(old Value) (Value, Value) {
				return r.ctx.BAnd(old.(*Term), a[1].(*Term)), old
			})
		}
		atomicIntrinsics["sync/atomic.Or"+ty] = func(r *Run, fr *frame, a []Value) Value {
			return r.atomicOp("atomic.Or", a[0], func(old Value) (Value, Value) {
				return r.ctx.BOr(old.(*Term), a[1].(*Term)), old
			})
		}
	}
}

var atomicIntrinsics = map[string]func(*Run, *frame, []Value) Value{}

type rwState struct {
	writer  bool
	readers int
}

func (r *Run) rwOf(p Ptr) (*rwState, string) {
	if p.slot == nil {
		r.goPanic("nil *sync.RWMutex")
	}
	key := locKey(p)
	if r.sched.rw == nil {
		r.sched.rw = map[string]*rwState{}
	}
	st := r.sched.rw[key]
	if st == nil {
		st = &rwState{}
		r.sched.rw[key] = st
	}
	return st, key
}

func (r *Run) rwAcquire(key string) {
	if vc := r.sched.mutexVC["rw:"+key]; vc != nil {
		joinVC(r.sched.cur.vc, vc)
	}
}

func (r *Run) rwRelease(key string) {
	g := r.sched.cur
	vc := r.sched.mutexVC["rw:"+key]
	if vc == nil {
		vc = map[int]int{}
		r.sched.mutexVC["rw:"+key] = vc
	}
	joinVC(vc, g.vc)
	g.vc[g.id]++
}

func inRWLock(r *Run, fr *frame, a []Value) Value {
	st, key := r.rwOf(a[0].(Ptr))
	r.blockUntilOn("RWMutex.Lock", "mu:"+key, func() bool { return !st.writer && st.readers == 0 }, func() {
		st.writer = true
		r.rwAcquire(key)
	})
	return nil
}

func inRWUnlock(r *Run, fr *frame, a []Value) Value {
	st, key := r.rwOf(a[0].(Ptr))
	bad := false
	r.visibleOn("RWMutex.Unlock", "mu:"+key, func() {
		if !st.writer {
			bad = true
			return
		}
		st.writer = false
		r.rwRelease(key)
	})
	if bad {
		r.goPanic("sync: Unlock of unlocked RWMutex")
	}
	return nil
}

func inRWRLock(r *Run, fr *frame, a []Value) Value {
	st, key := r.rwOf(a[0].(Ptr))
	r.blockUntilOn("RWMutex.RLock", "mu:"+key, func() bool { return !st.writer }, func() {
		st.readers++
		r.rwAcquire(key)
	})
	return nil
}

func inRWRUnlock(r *Run, fr *frame, a []Value) Value {
	st, key := r.rwOf(a[0].(Ptr))
	bad := false
	r.visibleOn("RWMutex.RUnlock", "mu:"+key, func() {
		if st.readers == 0 {
			bad = true
			return
		}
		st.readers--
		r.rwRelease(key)
	})
	if bad {
		r.goPanic("sync: RUnlock of unlocked RWMutex")
	}
	return nil
}

func inMutexTryLock(r *Run, fr *frame, a []Value) Value {
	p := a[0].(Ptr)
	if p.slot == nil {
		r.goPanic("nil *sync.Mutex")
	}
	mt := r.namedType("sync", "Mutex")
	sp := append(append([]pathElem(nil), p.path...), r.fieldPath(mt, "state")...)
	key := locKey(p)
	g := r.sched.cur
	got := false
	r.visibleOn("Mutex.TryLock", "mu:"+key, func() {
		s := r.walk(p.slot.v, sp).(*Term)
		if s.IsConst() && s.c == 0 {
			got = true
			p.slot.v = r.update(p.slot.v, sp, r.ctx.Const(32, 1))
			if vc := r.sched.mutexVC[key]; vc != nil {
				joinVC(g.vc, vc)
			}
		}
	})
	return r.ctx.Bool(got)
}

// ---------- internal/bytealg (assembly in the real runtime) ----------

func inMakeNoZero(r *Run, fr *frame, a []Value) Value {
	n := a[0].(*Term)
	r.obligation("makeslice-len", r.ctx.Sle(r.ctx.Const(64, 0), n), "makeslice: len out of range")
	return r.makeSlice(types.Typ[types.Byte], n, n)
}

// IndexByte(b, c): first index of c in b, or -1; the length must be concrete, the contents may be symbolic (forks per position).
func inIndexByte(r *Run, fr *frame, a []Value) Value {
	c := r.ctx
	s := a[0].(SliceVal)
	if s.slot == nil {
		return c.Const(64, ^uint64(0))
	}
	n := r.concreteInt(r.sliceLen(s), "bytealg.IndexByte length")
	for i := 0; i < n; i++ {
		eq := c.Eq(r.elemAt(s, c.Const(64, uint64(i))).(*Term), a[1].(*Term))
		if eq.IsTrue() || (!eq.IsFalse() && r.branch(eq)) {
			return c.Const(64, uint64(i))
		}
	}
	return c.Const(64, ^uint64(0))
}

func inIndexByteString(r *Run, fr *frame, a []Value) Value {
	c := r.ctx
	s := a[0].(Str)
	if s.sym {
		r.unsupported("bytealg.IndexByteString on a symbolic string")
	}
	ch := a[1].(*Term)
	for i := 0; i < len(s.s); i++ {
		eq := c.Eq(c.Const(8, uint64(s.s[i])), ch)
		if eq.IsTrue() || (!eq.IsFalse() && r.branch(eq)) {
			return c.Const(64, uint64(i))
		}
	}
	return c.Const(64, ^uint64(0))
}

func inCountByte(r *Run, fr *frame, a []Value) Value {
	c := r.ctx
	s := a[0].(SliceVal)
	cnt := c.Const(64, 0)
	if s.slot == nil {
		return cnt
	}
	n := r.concreteInt(r.sliceLen(s), "bytealg.Count length")
	for i := 0; i < n; i++ {
		eq := c.Eq(r.elemAt(s, c.Const(64, uint64(i))).(*Term), a[1].(*Term))
		cnt = c.Add(cnt, c.Ite(eq, c.Const(64, 1), c.Const(64, 0)))
	}
	return cnt
}

// Compare(a, b): -1/0/+1 lexicographically; concrete lengths.
func inBytesCompare(r *Run, fr *frame, a []Value) Value {
	c := r.ctx
	x, y := a[0].(SliceVal), a[1].(SliceVal)
	lx, ly := 0, 0
	if x.slot != nil {
		lx = r.concreteInt(r.sliceLen(x), "bytealg.Compare length")
	}
	if y.slot != nil {
		ly = r.concreteInt(r.sliceLen(y), "bytealg.Compare length")
	}
	for i := 0; i < lx && i < ly; i++ {
		k := c.Const(64, uint64(i))
		ex, ey := r.elemAt(x, k).(*Term), r.elemAt(y, k).(*Term)
		lt := c.Ult(ex, ey)
		if lt.IsTrue() || (!lt.IsFalse() && r.branch(lt)) {
			return c.Const(64, ^uint64(0))
		}
		gt := c.Ult(ey, ex)
		if gt.IsTrue() || (!gt.IsFalse() && r.branch(gt)) {
			return c.Const(64, 1)
		}
	}
	switch {
	case lx < ly:
		return c.Const(64, ^uint64(0))
	case lx > ly:
		return c.Const(64, 1)
	}
	return c.Const(64, 0)
}
