package main

// Simulated goroutines (one real goroutine each, baton passing: exactly one
// runs at any time), channels, select, timers, mutex/once/waitgroup and the
// scheduler that turns every synchronisation choice into a decision point.

import (
	"fmt"
	"go/token"
	"go/types"
	"runtime/debug"
	"sort"

	"golang.org/x/tools/go/ssa"
)

type gstate int

const (
	gReady gstate = iota
	gRunning
	gParked
	gDone
)

type reqKind int

const (
	rqComm    reqKind = iota // send / recv / select
	rqBlock                  // enabled when cond() holds; act() is its effect
	rqQuiesce                // enabled only when nothing else is
)

type selCase struct {
	send bool
	ch   *Chan
	val  Value
}

type request struct {
	kind       reqKind
	cases      []selCase
	hasDefault bool
	cond       func() bool
	act        func()
	label      string
	pos        string
	obj        interface{} // object the operation touches (for the independence relation); nil = unknown
	// result
	fired   int
	recvVal Value
	recvOk  bool
}

type wakeMsg struct{ die bool }

type Goroutine struct {
	id    int
	name  string
	fr    *frame
	state gstate
	req   *request
	wake  chan wakeMsg
	vc    map[int]int
	seq   int // number of visible operations performed (identifies its pending transition)
	// user goroutines are those created by the harness / code under test
	createdBy string
}

type Chan struct {
	id      int
	cap     int
	buf     []Value
	bufVC   []map[int]int
	closed  bool
	closeVC map[int]int
	elem    types.Type
	timer   *Timer // non-nil for timer channels
}

type Timer struct {
	id     int
	ch     *Chan
	armed  bool
	dur    *Term // duration (64-bit, ns)
	armAt  *Term // clock value when armed (timed mode)
	slot   *Slot // the time.Timer struct
	fired  int
	resets int
}

type transition struct {
	g     *Goroutine
	ci    int // case index (-1 default)
	h     *Goroutine
	hi    int
	timer *Timer
}

type Sched struct {
	r        *Run
	gs       []*Goroutine
	cur      *Goroutine
	last     *Goroutine
	yield    chan *Goroutine
	aborted  bool
	chans    int
	timers   []*Timer
	delays   int
	mutexVC  map[string]map[int]int
	rw       map[string]*rwState
	onceRun  map[string]int
	wgCount  map[string]int
	wgVC     map[string]map[int]int
	events   []string
	trans    int
	deadlock bool
	sleep    map[string]sleepEntry
}

func newSched(r *Run) *Sched {
	return &Sched{r: r, yield: make(chan *Goroutine), mutexVC: map[string]map[int]int{},
		onceRun: map[string]int{}, wgCount: map[string]int{}, wgVC: map[string]map[int]int{}}
}

func (r *Run) curG() *Goroutine {
	if r.sched == nil {
		return nil
	}
	return r.sched.cur
}

func copyVC(m map[int]int) map[int]int {
	n := make(map[int]int, len(m)+1)
	for k, v := range m {
		n[k] = v
	}
	return n
}

func joinVC(dst, src map[int]int) {
	for k, v := range src {
		if dst[k] < v {
			dst[k] = v
		}
	}
}

func (s *Sched) newG(name string, parent *Goroutine) *Goroutine {
	g := &Goroutine{id: len(s.gs), name: name, wake: make(chan wakeMsg), state: gReady}
	if parent != nil {
		g.vc = copyVC(parent.vc)
		parent.vc[parent.id]++
	} else {
		g.vc = map[int]int{}
	}
	g.vc[g.id] = 1
	s.gs = append(s.gs, g)
	return g
}

// start launches body on a fresh real goroutine that waits for its first wake.
func (s *Sched) start(g *Goroutine, body func()) {
	go func() {
		m := <-g.wake
		if !m.die {
			func() {
				defer func() {
					if e := recover(); e != nil {
						if _, ok := e.(pathAbort); ok {
							s.aborted = true
						} else {
							s.aborted = true
							s.r.res.Outcome = "engine-error"
							s.r.res.Unsupported = append(s.r.res.Unsupported,
								fmt.Sprintf("engine panic: %v @ %s\n%s", e, s.r.where(), debug.Stack()))
						}
					}
				}()
				g.state = gRunning
				body()
			}()
		}
		g.state = gDone
		g.req = nil
		s.yield <- g
	}()
}

func (r *Run) spawn(fr *frame, pos token.Pos, fnv Value, args []Value) {
	s := r.sched
	name := "go"
	switch f := fnv.(type) {
	case *ssa.Function:
		name = f.Name()
	case *Closure:
		name = f.fn.Name()
	}
	g := s.newG(fmt.Sprintf("%s@%s", name, r.eng.posStr(pos)), s.cur)
	g.createdBy = fr.fn.String()
	s.start(g, func() {
		r.call(nil, pos, fnv, args)
	})
}

// park blocks the calling simulated goroutine on rq until the scheduler fires it.
func (s *Sched) park(rq *request) {
	g := s.cur
	rq.pos = s.r.where()
	g.seq++
	g.req = rq
	g.state = gParked
	s.yield <- g
	m := <-g.wake
	if m.die {
		panic(pathAbort{"killed"})
	}
	g.state = gRunning
	g.req = nil
}

func (s *Sched) resume(g *Goroutine) {
	s.cur = g
	g.wake <- wakeMsg{}
	<-s.yield
}

func (s *Sched) killAll() {
	for _, g := range s.gs {
		if g.state == gParked || g.state == gReady {
			g.wake <- wakeMsg{die: true}
			<-s.yield
		}
	}
}

// loop runs the whole path; g0 is the harness goroutine.
func (s *Sched) loop(g0 *Goroutine) {
	defer func() {
		s.killAll()
	}()
	for {
		// run every ready goroutine up to its next visible operation
		for {
			var rg *Goroutine
			for _, g := range s.gs {
				if g.state == gReady {
					rg = g
					break
				}
			}
			if rg == nil || s.aborted {
				break
			}
			s.resume(rg)
		}
		if s.aborted || g0.state == gDone {
			return
		}
		trans := s.enabled()
		if len(trans) == 0 {
			// quiescence waiters
			var q *Goroutine
			for _, g := range s.gs {
				if g.state == gParked && g.req.kind == rqQuiesce {
					q = g
					break
				}
			}
			if q != nil {
				// the harness has observed quiescence: what it does next is ordered after everything so far
				for _, g := range s.gs {
					if g != q {
						joinVC(q.vc, g.vc)
					}
				}
				q.vc[q.id]++
				q.state = gReady
				s.last = q
				continue
			}
			s.deadlock = true
			s.cur = g0
			func() {
				defer func() {
					if e := recover(); e != nil {
						if _, ok := e.(pathAbort); !ok {
							panic(e)
						}
					}
				}()
				s.r.violation("deadlock", "deadlock: no goroutine can make progress: "+s.describeBlocked(), nil)
				s.r.res.Outcome = "deadlock"
			}()
			return
		}
		k := s.choose(trans)
		if k < 0 {
			s.aborted = true
			return
		}
		s.fire(trans[k])
	}
}

func (s *Sched) describeBlocked() string {
	out := ""
	for _, g := range s.gs {
		if g.state == gParked {
			out += fmt.Sprintf("[g%d %s: %s at %s] ", g.id, g.name, g.req.label, g.req.pos)
		}
	}
	return out
}

func (s *Sched) enabled() []transition {
	var ts []transition
	parked := make([]*Goroutine, 0, len(s.gs))
	for _, g := range s.gs {
		if g.state == gParked {
			parked = append(parked, g)
		}
	}
	// order: last mover first, then by id
	sort.SliceStable(parked, func(i, j int) bool {
		if (parked[i] == s.last) != (parked[j] == s.last) {
			return parked[i] == s.last
		}
		return parked[i].id < parked[j].id
	})
	for _, g := range parked {
		rq := g.req
		switch rq.kind {
		case rqBlock:
			if rq.cond == nil || rq.cond() {
				ts = append(ts, transition{g: g})
			}
		case rqComm:
			any := false
			for i, c := range rq.cases {
				if c.ch == nil {
					continue
				}
				if c.send {
					if c.ch.closed || (c.ch.cap > 0 && len(c.ch.buf) < c.ch.cap) {
						ts = append(ts, transition{g: g, ci: i})
						any = true
					} else {
						// rendezvous counted from the receiving side; still note enabledness
						for _, h := range parked {
							if h == g || h.req.kind != rqComm {
								continue
							}
							for _, hc := range h.req.cases {
								if !hc.send && hc.ch == c.ch {
									any = true
								}
							}
						}
					}
				} else {
					if len(c.ch.buf) > 0 || c.ch.closed {
						ts = append(ts, transition{g: g, ci: i})
						any = true
					} else if c.ch.cap == 0 || len(c.ch.buf) == 0 {
						for _, h := range parked {
							if h == g || h.req.kind != rqComm {
								continue
							}
							for j, hc := range h.req.cases {
								if hc.send && hc.ch == c.ch && !c.ch.closed {
									ts = append(ts, transition{g: g, ci: i, h: h, hi: j})
									any = true
								}
							}
						}
					}
				}
			}
			if !any && rq.hasDefault {
				ts = append(ts, transition{g: g, ci: -1})
			}
		}
	}
	for _, t := range s.timers {
		if t.armed && s.r.timerMayFire(t) {
			ts = append(ts, transition{timer: t})
		}
	}
	return ts
}

// ---------- sleep sets (partial-order reduction) ----------
//
// Two transitions are independent if they move disjoint goroutines and touch no common
// object (channel, timer, mutex/once/waitgroup key, context; "yield" for environment calls).
// Unknown objects are dependent with everything. When alternative k is taken at a choice
// point, the alternatives before it (explored by sibling paths) that are independent of it
// are put to sleep: they are not taken again until a dependent transition has executed,
// because doing so would only re-order independent steps of a schedule a sibling explores.

type sleepEntry struct {
	gs   [2]int
	objs []interface{}
}

func (s *Sched) tkey(t transition) string {
	if t.timer != nil {
		return fmt.Sprintf("T%d#%d", t.timer.id, t.timer.fired+t.timer.resets)
	}
	k := fmt.Sprintf("g%d#%d.%d", t.g.id, t.g.seq, t.ci)
	if t.h != nil {
		k += fmt.Sprintf("+g%d#%d.%d", t.h.id, t.h.seq, t.hi)
	}
	return k
}

func (s *Sched) tentry(t transition) sleepEntry {
	e := sleepEntry{gs: [2]int{-1, -1}}
	if t.timer != nil {
		e.objs = []interface{}{t.timer, t.timer.ch}
		return e
	}
	e.gs[0] = t.g.id
	if t.h != nil {
		e.gs[1] = t.h.id
	}
	rq := t.g.req
	switch rq.kind {
	case rqComm:
		if t.ci >= 0 {
			ch := rq.cases[t.ci].ch
			e.objs = []interface{}{ch}
			if ch.timer != nil {
				e.objs = append(e.objs, ch.timer)
			}
		} else {
			// default arm: depends on the readiness of every case
			for _, c := range rq.cases {
				if c.ch != nil {
					e.objs = append(e.objs, c.ch)
				}
			}
		}
	default:
		if rq.obj == nil {
			e.objs = nil // unknown
			e.gs[1] = -2 // marker: dependent with everything
		} else {
			e.objs = []interface{}{rq.obj}
			if tm, ok := rq.obj.(*Timer); ok {
				e.objs = append(e.objs, tm.ch)
			}
		}
	}
	return e
}

func dependent(a, b sleepEntry) bool {
	if a.gs[1] == -2 || b.gs[1] == -2 {
		return true
	}
	for _, x := range a.gs {
		if x < 0 {
			continue
		}
		for _, y := range b.gs {
			if x == y {
				return true
			}
		}
	}
	for _, x := range a.objs {
		for _, y := range b.objs {
			if x == y {
				return true
			}
		}
	}
	return false
}

// executed updates the sleep set after transition t was taken; earlier = alternatives a sibling explores.
func (s *Sched) executed(t transition, earlier []transition) {
	if !s.r.eng.sleepSets {
		return
	}
	te := s.tentry(t)
	for k, e := range s.sleep {
		if dependent(e, te) {
			delete(s.sleep, k)
		}
	}
	for _, o := range earlier {
		oe := s.tentry(o)
		if !dependent(oe, te) {
			if s.sleep == nil {
				s.sleep = map[string]sleepEntry{}
			}
			s.sleep[s.tkey(o)] = oe
		}
	}
}

// choose picks a transition. The base choice is index 0 (keep the last mover
// running, else lowest goroutine id). Other cases of the same select are free
// alternatives; moving another goroutine / firing a timer costs one delay.
func (s *Sched) choose(ts []transition) int {
	r := s.r
	// candidates: not asleep
	var cand []int
	for i, t := range ts {
		if r.eng.sleepSets && len(s.sleep) > 0 {
			if _, asleep := s.sleep[s.tkey(t)]; asleep {
				continue
			}
		}
		cand = append(cand, i)
	}
	if len(cand) == 0 {
		// every enabled transition is asleep: this schedule only re-orders independent steps of a sibling's
		r.res.Outcome = "pruned-sleep"
		return -1
	}
	base := ts[cand[0]]
	var alts []int
	var costs []int
	for n, i := range cand {
		t := ts[i]
		cost := 1
		if n == 0 {
			cost = 0
		} else if base.g != nil && t.g == base.g && t.timer == nil {
			cost = 0 // another ready case of the same select
		}
		if cost > 0 && r.delayBound >= 0 && s.delays+cost > r.delayBound {
			continue
		}
		alts = append(alts, i)
		costs = append(costs, cost)
	}
	k := 0
	if len(alts) > 1 {
		k = r.pick("sched", len(alts))
		s.delays += costs[k]
	}
	var earlier []transition
	for n := 0; n < k; n++ {
		earlier = append(earlier, ts[alts[n]])
	}
	s.executed(ts[alts[k]], earlier)
	return alts[k]
}

func (s *Sched) fire(t transition) {
	s.trans++
	r := s.r
	if t.timer != nil {
		tm := t.timer
		tm.armed = false
		tm.fired++
		if len(tm.ch.buf) < tm.ch.cap {
			tm.ch.buf = append(tm.ch.buf, r.timeValue())
			tm.ch.bufVC = append(tm.ch.bufVC, nil)
		}
		r.onTimerFired(tm)
		s.event(fmt.Sprintf("timer%d fires", tm.id))
		return
	}
	g := t.g
	rq := g.req
	s.last = g
	if s.r.eng.traceEvents {
		s.event(fmt.Sprintf("g%d(%s) %s case=%d at %s", g.id, g.name, rq.label, t.ci, firstPos(rq.pos)))
	}
	switch rq.kind {
	case rqBlock:
		s.cur = g
		if rq.act != nil {
			rq.act()
		}
		g.state = gReady
		return
	case rqComm:
		rq.fired = t.ci
		if t.ci < 0 {
			g.state = gReady
			return
		}
		c := rq.cases[t.ci]
		ch := c.ch
		if t.h != nil {
			// rendezvous: g receives from h
			hr := t.h.req
			hr.fired = t.hi
			rq.recvVal, rq.recvOk = hr.cases[t.hi].val, true
			joinVC(g.vc, t.h.vc)
			joinVC(t.h.vc, g.vc)
			g.vc[g.id]++
			t.h.vc[t.h.id]++
			g.state, t.h.state = gReady, gReady
			s.event(fmt.Sprintf("g%d -> g%d on chan%d", t.h.id, g.id, ch.id))
			return
		}
		if c.send {
			if ch.closed {
				s.cur = g
				g.state = gReady
				rq.fired = -2 // send on closed channel: goroutine panics when resumed
				return
			}
			ch.buf = append(ch.buf, c.val)
			ch.bufVC = append(ch.bufVC, copyVC(g.vc))
			g.vc[g.id]++
		} else {
			if len(ch.buf) > 0 {
				rq.recvVal, rq.recvOk = ch.buf[0], true
				if vc := ch.bufVC[0]; vc != nil {
					joinVC(g.vc, vc)
				}
				ch.buf = ch.buf[1:]
				ch.bufVC = ch.bufVC[1:]
			} else { // closed
				rq.recvVal, rq.recvOk = nil, false
				joinVC(g.vc, ch.closeVC)
			}
			g.vc[g.id]++
		}
		g.state = gReady
	}
}

func (s *Sched) event(e string) {
	if s.r.eng.traceEvents {
		s.events = append(s.events, e)
	}
}

// ---------- channel operations (called on simulated goroutines) ----------

func (r *Run) newChan(n int, elem types.Type) *Chan {
	r.sched.chans++
	return &Chan{id: r.sched.chans, cap: n, elem: elem}
}

func (r *Run) chanSend(ch *Chan, v Value) {
	rq := &request{kind: rqComm, cases: []selCase{{send: true, ch: ch, val: v}}, label: "chan send"}
	r.sched.park(rq)
	if rq.fired == -2 {
		r.goPanic("send on closed channel")
	}
}

func (r *Run) chanRecv(ch *Chan) (Value, bool) {
	rq := &request{kind: rqComm, cases: []selCase{{ch: ch}}, label: "chan receive"}
	r.sched.park(rq)
	return rq.recvVal, rq.recvOk
}

func (r *Run) chanClose(ch *Chan) {
	if ch == nil {
		r.goPanic("close of nil channel")
	}
	g := r.sched.cur
	bad := false
	rq := &request{kind: rqBlock, label: "close(chan)", obj: ch, act: func() {
		if ch.closed {
			bad = true
			return
		}
		ch.closed = true
		ch.closeVC = copyVC(g.vc)
		g.vc[g.id]++
	}}
	r.sched.park(rq)
	if bad {
		r.goPanic("close of closed channel")
	}
}

func (r *Run) selectOp(fr *frame, in *ssa.Select) Value {
	c := r.ctx
	rq := &request{kind: rqComm, hasDefault: !in.Blocking, label: "select"}
	for _, st := range in.States {
		ch, _ := fr.get(st.Chan).(*Chan)
		sc := selCase{ch: ch}
		if st.Dir == types.SendOnly {
			sc.send = true
			sc.val = fr.get(st.Send)
		}
		rq.cases = append(rq.cases, sc)
	}
	r.sched.park(rq)
	if rq.fired == -2 {
		r.goPanic("send on closed channel (select)")
	}
	tu := Tuple{c.Const(64, uint64(int64(rq.fired))), c.Bool(rq.recvOk)}
	for i, st := range in.States {
		if st.Dir == types.RecvOnly {
			var v Value
			if i == rq.fired && rq.recvVal != nil {
				v = rq.recvVal
			} else {
				v = r.zero(st.Chan.Type().Underlying().(*types.Chan).Elem())
			}
			tu = append(tu, v)
		}
	}
	return tu
}

// visible performs act as one scheduling point (non-blocking visible operation).
func (r *Run) visible(label string, act func()) { r.visibleOn(label, nil, act) }

func (r *Run) visibleOn(label string, obj interface{}, act func()) {
	r.sched.park(&request{kind: rqBlock, label: label, act: act, obj: obj})
}

// blockUntil parks until cond holds, then performs act atomically.
func (r *Run) blockUntil(label string, cond func() bool, act func()) {
	r.blockUntilOn(label, nil, cond, act)
}

func (r *Run) blockUntilOn(label string, obj interface{}, cond func() bool, act func()) {
	r.sched.park(&request{kind: rqBlock, label: label, cond: cond, act: act, obj: obj})
}

// ---------- happens-before race detection ----------

type accessInfo struct {
	wG, wC int
	wPos   string
	rd     map[int]int
	rPos   map[int]string
}

func (r *Run) raceKey(p []pathElem) string {
	k := ""
	for _, e := range p {
		if e.idx == nil {
			k += fmt.Sprintf(".%d;", e.field)
		} else if e.idx.IsConst() {
			k += fmt.Sprintf("[%d];", e.idx.c)
		} else {
			break // unknown element: conflicts with every element of this array
		}
	}
	return k
}

func (r *Run) raceRead(s *Slot)  {}
func (r *Run) raceWrite(s *Slot) {}

func prefixRel(a, b string) bool {
	if len(a) <= len(b) {
		return b[:len(a)] == a
	}
	return a[:len(b)] == b
}

// raceAccess: happens-before check of one memory access (FastTrack style, per slot and
// access path; a path conflicts with every path it is a prefix of). Accesses made by
// harness code (models, assertions after verifQuiesce) are not checked.
func (r *Run) raceAccess(s *Slot, path []pathElem, write bool) {
	if !r.raceDetect || s == nil || s.noRace {
		return
	}
	g := r.sched.cur
	if g == nil || g.fr == nil || r.eng.isHarnessFn(g.fr.fn) {
		return
	}
	key := r.raceKey(path)
	if s.acc == nil {
		s.acc = map[string]*accessInfo{}
		// creation counts as a write by the creator
		s.acc[""] = &accessInfo{wG: s.wG, wC: s.wC, wPos: "allocation"}
	}
	hb := func(og, oc int) bool { return og == g.id || g.vc[og] >= oc }
	for k, ai := range s.acc {
		if !prefixRel(k, key) {
			continue
		}
		if ai.wC > 0 && !hb(ai.wG, ai.wC) {
			r.reportRace(s, key, write, ai.wG, true, ai.wPos)
			return
		}
		if write {
			for rg, rc := range ai.rd {
				if !hb(rg, rc) {
					r.reportRace(s, key, write, rg, false, ai.rPos[rg])
					return
				}
			}
		}
	}
	ai := s.acc[key]
	if ai == nil {
		ai = &accessInfo{}
		s.acc[key] = ai
	}
	if write {
		ai.wG, ai.wC, ai.wPos = g.id, g.vc[g.id], r.where()
		ai.rd, ai.rPos = nil, nil
	} else {
		if ai.rd == nil {
			ai.rd, ai.rPos = map[int]int{}, map[int]string{}
		}
		ai.rd[g.id] = g.vc[g.id]
		ai.rPos[g.id] = r.where()
	}
}

func (r *Run) reportRace(s *Slot, key string, write bool, og int, otherWrite bool, opos string) {
	kind := map[bool]string{true: "write", false: "read"}
	site := firstPos(r.where()) + " vs " + firstPos(opos)
	id := "data-race"
	if r.raceSeen == nil {
		r.raceSeen = map[string]bool{}
	}
	if r.raceSeen[site] {
		return
	}
	r.raceSeen[site] = true
	msg := fmt.Sprintf("data race (no happens-before): %s of %s%s by g%d at %s  ||  %s by g%d at %s", kind[write], s.name, key, r.sched.cur.id, r.where(), kind[otherWrite], og, opos)
	m := r.model
	if m == nil {
		if st, mm := r.solve(); st == "sat" {
			m = mm
		}
	}
	r.violationM(id, "race", msg, m, "")
}
