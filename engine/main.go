package main

import (
	"runtime/debug"
	"runtime/pprof"
	"sync"
	"crypto/sha1"
	"encoding/json"
	"flag"
	"fmt"
	"os"
	"os/exec"
	"path/filepath"
	"sort"
	"strconv"
	"strings"
	"time"

	"golang.org/x/tools/go/ssa"
)

var verifDir = "/verif"

func env(k, d string) string {
	if v := os.Getenv(k); v != "" {
		return v
	}
	return d
}

type KnownFinding struct {
	ID       string `json:"id"`
	Property string `json:"property"`
	Status   string `json:"status"` // open | fixed
	Commit   string `json:"commit,omitempty"`
	What     string `json:"what"`
}

type KnownFile struct {
	Findings []KnownFinding `json:"findings"`
}

func loadKnown() KnownFile {
	var kf KnownFile
	b, err := os.ReadFile(filepath.Join(verifDir, "known_findings.json"))
	if err == nil {
		json.Unmarshal(b, &kf)
	}
	return kf
}

func main() {
	if len(os.Args) < 2 {
		fmt.Fprintln(os.Stderr, "usage: gosym check|run|replay ...")
		os.Exit(2)
	}
	verifDir = env("VERIF_DIR", "/verif")
	// the interpreter allocates short-lived immutable values at a high rate; the machine has memory to spare
	debug.SetGCPercent(400)
	debug.SetMemoryLimit(12 << 30)
	switch os.Args[1] {
	case "check":
		os.Exit(cmdCheck(os.Args[2:]))
	case "run":
		os.Exit(cmdRun(os.Args[2:]))
	case "replay":
		os.Exit(cmdReplay(os.Args[2:]))
	case "tv":
		os.Exit(cmdTV(os.Args[2:]))
	default:
		fmt.Fprintln(os.Stderr, "unknown command")
		os.Exit(2)
	}
}

func parseSolvers(s string) []SolverKind {
	var out []SolverKind
	for _, f := range strings.Split(s, ",") {
		switch strings.TrimSpace(f) {
		case "z3":
			out = append(out, Z3)
		case "cvc5int":
			out = append(out, CVC5Int)
		case "z3new":
			out = append(out, Z3New)
		case "cvc5":
			out = append(out, CVC5)
		}
	}
	return out
}

func setup(tier string) (*Engine, error) { return setupFor(tier, "") }

func setupFor(tier, prop string) (*Engine, error) {
	repo := env("VERIF_REPO", "/repo")
	e, err := loadEngine(repo, filepath.Join(verifDir, "harness"), prop)
	if err != nil {
		return nil, err
	}
	if tier == "thorough" {
		e.tier = 1
	}
	for _, k := range loadKnown().Findings {
		if k.Status == "open" {
			e.knownOpen[k.ID] = true
		}
	}
	e.seed, _ = strconv.ParseInt(env("VERIF_SEED", "0"), 10, 64)
	return e, nil
}

func cmdRun(args []string) int {
	fs := flag.NewFlagSet("run", flag.ExitOnError)
	harness := fs.String("harness", "", "harness function")
	tier := fs.String("tier", "quick", "tier")
	workers := fs.Int("workers", 16, "workers")
	maxPaths := fs.Int("maxpaths", 0, "max paths")
	budget := fs.Duration("budget", 10*time.Minute, "time budget")
	qt := fs.Duration("qtimeout", 20*time.Second, "per query timeout")
	solvers := fs.String("solvers", "z3,cvc5,cvc5int,z3new", "solver order")
	dump := fs.String("dump", "", "dump queries to dir")
	trace := fs.Bool("trace", false, "record scheduler events")
	dbg := fs.Bool("debugpicks", false, "log pick sites")
	prof := fs.String("cpuprofile", "", "write cpu profile")
	fs.Parse(args)
	e, err := setup(*tier)
	if err != nil {
		fmt.Fprintln(os.Stderr, "LOAD ERROR:", err)
		return 2
	}
	e.dumpQueries = *dump
	e.traceEvents = *trace
	e.debugPicks = *dbg
	if *prof != "" {
		f, _ := os.Create(*prof)
		pprof.StartCPUProfile(f)
		defer pprof.StopCPUProfile()
	}
	sum := e.explore(*harness, ExploreCfg{Workers: *workers, MaxPaths: *maxPaths, Budget: *budget, Timeout: *qt, Solvers: parseSolvers(*solvers)})
	printSummary(sum)
	for _, v := range sum.Violations {
		b, _ := json.Marshal(v.Vars)
		fmt.Printf("  violation %s [%s] %s @ %s known=%q vars=%s\n", v.ID, v.Kind, v.Msg, v.Pos, v.Known, b)
		for name, cells := range v.Arrays {
			fmt.Printf("    array %s: %v\n", name, cells)
		}
		for _, ev := range v.Events {
			fmt.Println("    ev:", ev)
		}
	}
	return 0
}

func printSummary(sum *Summary) {
	fmt.Printf("harness %s: paths=%d outcomes=%v obligations=%d discharged=%d trivial=%d unknown=%d symbranches=%d steps=%d trans=%d maxG=%d wall=%.1fs\n",
		sum.Harness, sum.Paths, sum.Outcomes, sum.Obligations, sum.Discharged, sum.Trivial, sum.UnknownObl, sum.SymBranches, sum.Steps, sum.Transitions, sum.MaxGoroutines, sum.WallS)
	fmt.Printf("  picks=%d concretized=%d\n", sum.Picks, sum.Concretized)
	fmt.Printf("  solver: queries=%d sat=%d unsat=%d unknown=%d errors=%d time=%.1fs backends=%v cross=%d/%d\n",
		sum.Solver.Queries, sum.Solver.Sat, sum.Solver.Unsat, sum.Solver.Unknown, sum.Solver.Errors, float64(sum.Solver.TimeNs)/1e9, sum.Solver.ByBackend, sum.Solver.CrossDis, sum.Solver.CrossChk)
	var cov []string
	for k := range sum.Covers {
		cov = append(cov, k)
	}
	sort.Strings(cov)
	fmt.Printf("  covers: %v\n", cov)
	for k, n := range sum.CutLoops {
		fmt.Printf("  cut: %s x%d\n", k, n)
	}
	for _, u := range sum.Unsupported {
		fmt.Printf("  UNSUPPORTED: %s\n", u)
	}
	for _, u := range sum.Incomplete {
		fmt.Printf("  INCOMPLETE: %s\n", u)
	}
	for _, o := range sum.Observations {
		fmt.Printf("  obs: %s\n", o)
	}
}

// wantedCovers collects the constant ids of verifCover* calls reachable from fn
// through harness (overlay) functions.
func (e *Engine) wantedCovers(fn *ssa.Function) []string {
	seen := map[*ssa.Function]bool{}
	ids := map[string]bool{}
	var visit func(f *ssa.Function)
	visit = func(f *ssa.Function) {
		if f == nil || seen[f] || f.Blocks == nil {
			return
		}
		seen[f] = true
		if !e.isHarnessFn(f) {
			return
		}
		for _, af := range f.AnonFuncs {
			visit(af)
		}
		for _, b := range f.Blocks {
			for _, in := range b.Instrs {
				var cc *ssa.CallCommon
				switch x := in.(type) {
				case *ssa.Call:
					cc = &x.Call
				case *ssa.Go:
					cc = &x.Call
				case *ssa.Defer:
					cc = &x.Call
				case *ssa.MakeClosure:
					visit(x.Fn.(*ssa.Function))
				}
				if cc == nil {
					continue
				}
				if callee := cc.StaticCallee(); callee != nil {
					n := callee.Name()
					if n == "verifCover" || n == "verifCoverIf" {
						if k, ok := cc.Args[0].(*ssa.Const); ok {
							ids[strings.Trim(k.Value.ExactString(), "\"")] = true
						}
					}
					// shared helpers declare their cover points with verifWant
				}
			}
		}
	}
	visit(fn)
	var out []string
	for k := range ids {
		out = append(out, k)
	}
	sort.Strings(out)
	return out
}

type tierCfg struct {
	budget  time.Duration
	qt      time.Duration
	solvers []SolverKind
	cross   int
}

func cmdCheck(args []string) int {
	fs := flag.NewFlagSet("check", flag.ExitOnError)
	prop := fs.String("prop", "", "property id")
	tier := fs.String("tier", "quick", "tier")
	workers := fs.Int("workers", 16, "workers")
	only := fs.String("only", "", "only harnesses containing this substring")
	fs.Parse(args)
	if t := os.Getenv("VERIF_TIER"); t == "quick" || t == "thorough" {
		*tier = t
	}
	t0 := time.Now()
	e, err := setupFor(*tier, *prop)
	if err != nil {
		fmt.Println("BROKEN: harness does not load against the current tree (exit 2, not a verdict):")
		fmt.Println(err)
		return 2
	}
	tc := tierCfg{budget: 6 * time.Minute, qt: 20 * time.Second, solvers: []SolverKind{Z3, CVC5, CVC5Int, Z3New}, cross: 0}
	if *tier == "thorough" {
		tc = tierCfg{budget: 20 * time.Minute, qt: 60 * time.Second, solvers: []SolverKind{Z3, CVC5, CVC5Int, Z3New}, cross: 7}
	}
	if len(droppedHarnessFiles) > 0 {
		var d []string
		for f := range droppedHarnessFiles {
			d = append(d, f)
		}
		sort.Strings(d)
		fmt.Printf("note: harness files of other properties left out because they do not compile against this tree: %s\n", strings.Join(d, " "))
	}
	hs := e.harnesses(*prop, e.tier)
	if *only != "" {
		var f []string
		for _, h := range hs {
			if strings.Contains(h, *only) {
				f = append(f, h)
			}
		}
		hs = f
	}
	if len(hs) == 0 {
		fmt.Println("BROKEN: no harness for", *prop)
		return 2
	}
	var sums []*Summary
	exit := 0
	inconclusive := []string{}
	nViol := 0
	knownPrinted := map[string]bool{}
	kf := loadKnown()
	// all harnesses of the property run concurrently; a global semaphore keeps
	// the number of simultaneously executing paths at the worker count
	e.cpuSem = make(chan struct{}, *workers)
	results := make([]*Summary, len(hs))
	var hwg sync.WaitGroup
	for i, h := range hs {
		hwg.Add(1)
		go func(i int, h string) {
			defer hwg.Done()
			cfg := ExploreCfg{Workers: *workers, Budget: tc.budget, Timeout: tc.qt, Solvers: tc.solvers, Cross: tc.cross}
			if sv := e.harnessSolvers(h); sv != nil {
				cfg.Solvers = sv
			}
			sum := e.explore(h, cfg)
			sum.CoverWanted = e.wantedCovers(e.pkg.Func(h))
			for w := range sum.Wanted {
				sum.CoverWanted = append(sum.CoverWanted, w)
			}
			results[i] = sum
		}(i, h)
	}
	hwg.Wait()
	for i, h := range hs {
		sum := results[i]
		sums = append(sums, sum)
		printSummary(sum)
		for _, u := range sum.Unsupported {
			inconclusive = append(inconclusive, h+": unsupported: "+firstLine(u))
		}
		for _, u := range sum.Incomplete {
			inconclusive = append(inconclusive, h+": "+u)
		}
		if sum.UnknownObl > 0 {
			inconclusive = append(inconclusive, fmt.Sprintf("%s: %d obligations undecided by every back end", h, sum.UnknownObl))
		}
		if n := sum.Outcomes["cut-unaccounted"]; n > 0 {
			inconclusive = append(inconclusive, fmt.Sprintf("%s: %d paths cut by an engine limit", h, n))
		}
		if n := sum.Outcomes["engine-error"]; n > 0 {
			inconclusive = append(inconclusive, fmt.Sprintf("%s: %d paths ended in an engine error", h, n))
		}
		if sum.Solver.CrossDis > 0 {
			inconclusive = append(inconclusive, fmt.Sprintf("%s: %d cross-solver disagreements", h, sum.Solver.CrossDis))
		}
		for _, w := range sum.CoverWanted {
			if _, ok := sum.Covers[w]; !ok {
				inconclusive = append(inconclusive, fmt.Sprintf("%s: cover point %q not reached (vacuity guard)", h, w))
			}
		}
		for _, v := range sum.Violations {
			if v.Kind == "model" {
				inconclusive = append(inconclusive, fmt.Sprintf("%s: modelling obligation failed: %s", h, v.Msg))
				continue
			}
			path := writeReplay(*prop, v)
			if v.Known != "" {
				if !knownPrinted[v.Known] {
					knownPrinted[v.Known] = true
					what := v.Known
					for _, k := range kf.Findings {
						if k.ID == v.Known {
							what = k.ID + ": " + k.What
						}
					}
					fmt.Printf("KNOWN-FINDING: property=%s %s (witness %s)\n", *prop, what, path)
				}
				continue
			}
			ok, detail := e.confirm(v, path)
			if !ok {
				inconclusive = append(inconclusive, fmt.Sprintf("%s: counterexample for %s did not reproduce (%s): machinery error, not reported as violation", h, v.ID, detail))
				continue
			}
			nViol++
			fmt.Printf("  counterexample: %s — %s at %s [%s]\n", v.ID, v.Msg, firstPos(v.Pos), detail)
			fmt.Printf("VIOLATION property=%s replay=%s\n", *prop, path)
			exit = 1
		}
	}
	if exit == 0 && len(inconclusive) > 0 {
		exit = 2
	}
	for _, s := range inconclusive {
		fmt.Println("INCONCLUSIVE:", s)
	}
	writeEvidence(e, *prop, *tier, sums, nViol, inconclusive, time.Since(t0).Seconds())
	switch exit {
	case 0:
		fmt.Printf("OK property=%s tier=%s held on all %d harnesses within the stated bounds (%.1fs)\n", *prop, *tier, len(hs), time.Since(t0).Seconds())
	case 2:
		fmt.Printf("INCONCLUSIVE property=%s (exit 2: neither held nor violated)\n", *prop)
	}
	return exit
}

func firstLine(s string) string {
	if i := strings.Index(s, "\n"); i >= 0 {
		return s[:i]
	}
	return s
}

// harnessSolvers: harnesses whose name contains "Arith" start with cvc5 bv-as-int.
func (e *Engine) harnessSolvers(h string) []SolverKind {
	if strings.Contains(h, "Arith") {
		return []SolverKind{CVC5Int, Z3, CVC5, Z3New}
	}
	return nil
}

type ReplayFile struct {
	Property  string                       `json:"property"`
	Harness   string                       `json:"harness"`
	AssertID  string                       `json:"assert_id"`
	Kind      string                       `json:"kind"`
	Msg       string                       `json:"msg"`
	Pos       string                       `json:"pos"`
	Known     string                       `json:"known,omitempty"`
	Vars      map[string]uint64            `json:"vars"`
	Arrays    map[string]map[string]uint64 `json:"arrays"`
	Nondets   []NondetInfo                 `json:"nondets"`
	Picks     []int                        `json:"picks"`
	Decisions []Decision                   `json:"decisions"`
	Events    []string                     `json:"events,omitempty"`
	EngineOnly bool                        `json:"engine_only"`
}

func writeReplay(prop string, v *Violation) string {
	rf := ReplayFile{Property: prop, Harness: v.Harness, AssertID: v.ID, Kind: v.Kind, Msg: v.Msg, Pos: v.Pos, Known: v.Known,
		Vars: v.Vars, Arrays: map[string]map[string]uint64{}, Nondets: v.Nondets, Picks: v.Picks, Decisions: v.Decisions, Events: v.Events, EngineOnly: v.EngineOnly}
	if rf.Vars == nil {
		rf.Vars = map[string]uint64{}
	}
	for n, cells := range v.Arrays {
		m := map[string]uint64{}
		for k, x := range cells {
			m[strconv.FormatUint(k, 10)] = x
		}
		rf.Arrays[n] = m
	}
	h := sha1.Sum([]byte(fmt.Sprint(v.Harness, v.ID, v.Pos, v.Known)))
	path := filepath.Join(verifDir, "replays", prop, fmt.Sprintf("%s-%x.json", v.Harness, h[:4]))
	writeJSON(path, rf)
	return path
}

func readReplay(path string) (*ReplayFile, *Model, error) {
	b, err := os.ReadFile(path)
	if err != nil {
		return nil, nil, err
	}
	var rf ReplayFile
	if err := json.Unmarshal(b, &rf); err != nil {
		return nil, nil, err
	}
	m := NewModel()
	m.Total = true
	for k, v := range rf.Vars {
		m.Vars[k] = v
	}
	for n, cells := range rf.Arrays {
		a := map[uint64]uint64{}
		for k, v := range cells {
			i, _ := strconv.ParseUint(k, 10, 64)
			a[i] = v
		}
		m.Arrays[n] = a
	}
	return &rf, m, nil
}

// confirm re-executes the counterexample: concretely in the engine, and natively
// against the real build when the harness is natively runnable.
func (e *Engine) confirm(v *Violation, path string) (bool, string) {
	rf, m, err := readReplay(path)
	if err != nil {
		return false, err.Error()
	}
	okE, dE := e.replayEngine(rf, m)
	if !okE {
		return false, "engine concrete re-execution: " + dE
	}
	if rf.EngineOnly {
		return true, "reproduced by concrete re-execution of the real SSA (harness uses engine-side models; native replay not applicable)"
	}
	okN, dN := replayNative(e.repoDir, path, rf)
	if !okN {
		return false, "native replay: " + dN
	}
	return true, "reproduced natively with go test against the real build"
}

func (e *Engine) replayEngine(rf *ReplayFile, m *Model) (bool, string) {
	sum := e.explore(rf.Harness, ExploreCfg{Workers: 1, Timeout: 10 * time.Second, Solvers: []SolverKind{Z3}, Concrete: m, SinglePath: true, ConcretePicks: append([]int{}, rf.Picks...)})
	for _, v := range sum.Violations {
		if v.ID == rf.AssertID {
			return true, "same assertion fails"
		}
	}
	if len(sum.Violations) > 0 {
		return true, "fails with " + sum.Violations[0].ID + " instead of " + rf.AssertID
	}
	if e.traceEvents {
		for _, o := range sum.Observations {
			fmt.Println("    ev:", o)
		}
	}
	return false, fmt.Sprintf("no violation on concrete re-execution (outcomes %v %v)", sum.Outcomes, sum.Unsupported)
}

// nativeTest runs one test of the native twin (harness files + /verif/native compiled into the
// real package by go test -overlay) and returns its combined output.
func nativeTest(repoDir, testName string, extraEnv []string) (string, error) {
	hdir := filepath.Join(verifDir, "harness")
	ndir := filepath.Join(verifDir, "native")
	ov := map[string]string{}
	ents, _ := os.ReadDir(hdir)
	for _, en := range ents {
		if strings.HasSuffix(en.Name(), ".go") && !droppedHarnessFiles[en.Name()] {
			ov[filepath.Join(repoDir, "zz_verif_"+en.Name())] = filepath.Join(hdir, en.Name())
		}
	}
	ents, _ = os.ReadDir(ndir)
	for _, en := range ents {
		if strings.HasSuffix(en.Name(), ".go") {
			ov[filepath.Join(repoDir, "zz_verifn_"+en.Name())] = filepath.Join(ndir, en.Name())
		}
	}
	tmp, err := os.MkdirTemp("", "gosym-native")
	if err != nil {
		return "", err
	}
	defer os.RemoveAll(tmp)
	// table of harness entry points (name -> func) for the native test
	var names []string
	ents, _ = os.ReadDir(hdir)
	for _, en := range ents {
		if !strings.HasSuffix(en.Name(), ".go") || droppedHarnessFiles[en.Name()] {
			continue
		}
		src, _ := os.ReadFile(filepath.Join(hdir, en.Name()))
		for _, l := range strings.Split(string(src), "\n") {
			if strings.HasPrefix(l, "func Verif") && strings.Contains(l, "()") {
				n := strings.TrimPrefix(l, "func ")
				n = n[:strings.Index(n, "(")]
				names = append(names, n)
			}
		}
	}
	tab := "//go:build verif && verifnative\n\npackage corebgp\n\nvar verifHarnessTable = map[string]func(){\n"
	for _, n := range names {
		tab += fmt.Sprintf("\t%q: %s,\n", n, n)
	}
	tab += "}\n"
	tabf := filepath.Join(tmp, "table.go")
	os.WriteFile(tabf, []byte(tab), 0o644)
	ov[filepath.Join(repoDir, "zz_verifn_table.go")] = tabf
	ovf := filepath.Join(tmp, "overlay.json")
	writeJSON(ovf, map[string]interface{}{"Replace": ov})
	cmd := exec.Command("go", "test", "-vet=off", "-count=1", "-tags", "verif verifnative", "-overlay", ovf, "-run", "^"+testName+"$", "-timeout", "120s", ".")
	cmd.Dir = repoDir
	cmd.Env = append(append(os.Environ(), "GOFLAGS=-mod=mod", "GOPROXY=off", "GOSUMDB=off", "GOTOOLCHAIN=local", "GOCACHE="+env("GOCACHE", filepath.Join(os.TempDir(), "gosym-gocache"))), extraEnv...)
	out, err := cmd.CombinedOutput()
	return string(out), err
}

func replayNative(repoDir, path string, rf *ReplayFile) (bool, string) {
	s, err := nativeTest(repoDir, "TestVerifReplay", []string{"VERIF_REPLAY=" + path})
	want := "VERIF-REPLAY-FAIL assertion " + rf.AssertID
	if rf.Kind == "implicit" {
		want = "panic:"
	}
	// reproduced iff the wanted failure happens, and before any harness assumption fails
	// (after a failed assertion the native run goes on and may then violate a later assumption)
	wi, ai := strings.Index(s, want), strings.Index(s, "VERIF-REPLAY-ASSUME-FAILED")
	if wi >= 0 && (ai < 0 || wi < ai) {
		line := ""
		for _, l := range strings.Split(s, "\n") {
			if strings.Contains(l, want) {
				line = strings.TrimSpace(l)
				break
			}
		}
		return true, line
	}
	if err == nil {
		return false, "native test passed: " + lastLines(s, 3)
	}
	return false, "native test did not run: " + lastLines(s, 8)
}

// cmdTV: translator validation. Every Verif_TV_* harness is run concretely by the engine and
// natively; the sequences of observed values must be identical.
func cmdTV(args []string) int {
	e, err := setup("quick")
	if err != nil {
		fmt.Println("BROKEN:", err)
		return 2
	}
	var hs []string
	for name := range e.pkg.Members {
		if strings.HasPrefix(name, "Verif_TV_") {
			hs = append(hs, name)
		}
	}
	sort.Strings(hs)
	total, bad := 0, 0
	for _, h := range hs {
		e.keepAllObs = true
		sum := e.explore(h, ExploreCfg{Workers: 1, Timeout: 10 * time.Second, Solvers: []SolverKind{Z3}, SinglePath: true})
		if len(sum.Unsupported) > 0 || sum.Outcomes["ok"] != 1 {
			fmt.Printf("TV %s: engine run did not complete: %v %v\n", h, sum.Outcomes, sum.Unsupported)
			bad++
			continue
		}
		tmp, _ := os.CreateTemp("", "tvout")
		tmp.Close()
		out, err := nativeTest(e.repoDir, "TestVerifTV", []string{"VERIF_TV=" + h, "VERIF_TV_OUT=" + tmp.Name()})
		if err != nil {
			fmt.Printf("TV %s: native run failed: %s\n", h, lastLines(out, 6))
			bad++
			continue
		}
		nb, _ := os.ReadFile(tmp.Name())
		os.Remove(tmp.Name())
		nat := strings.Split(strings.TrimRight(string(nb), "\n"), "\n")
		eng := sum.Observations
		n := len(eng)
		if len(nat) != n {
			fmt.Printf("TV %s: %d engine observations vs %d native\n", h, len(eng), len(nat))
			bad++
			if len(nat) < n {
				n = len(nat)
			}
		}
		for i := 0; i < n; i++ {
			if eng[i] != nat[i] {
				fmt.Printf("TV %s: observation %d differs: engine %q native %q\n", h, i, eng[i], nat[i])
				bad++
				break
			}
		}
		total += n
		fmt.Printf("TV %s: %d observations compared\n", h, n)
	}
	writeJSON(filepath.Join(verifDir, "bin", "tv_result.json"), map[string]interface{}{"observations_compared": total, "mismatches": bad, "harnesses": hs})
	if bad > 0 {
		fmt.Println("TRANSLATOR VALIDATION FAILED")
		return 2
	}
	fmt.Printf("translator validation ok: %d observations of %d harnesses identical in engine and native build\n", total, len(hs))
	return 0
}

func lastLines(s string, n int) string {
	ls := strings.Split(strings.TrimSpace(s), "\n")
	if len(ls) > n {
		ls = ls[len(ls)-n:]
	}
	return strings.Join(ls, " | ")
}

func cmdReplay(args []string) int {
	if len(args) < 1 {
		fmt.Println("usage: gosym replay <file>")
		return 2
	}
	rf, m, err := readReplay(args[0])
	if err != nil {
		fmt.Println(err)
		return 2
	}
	e, err := setup("quick")
	if err != nil {
		fmt.Println("LOAD ERROR:", err)
		return 2
	}
	e.traceEvents = true
	fmt.Printf("replaying %s: harness %s, assertion %s (%s) at %s\n", args[0], rf.Harness, rf.AssertID, rf.Msg, rf.Pos)
	b, _ := json.Marshal(rf.Vars)
	fmt.Printf("inputs: %s\n", b)
	for n, c := range rf.Arrays {
		fmt.Printf("buffer %s cells: %v\n", n, c)
	}
	ok, d := e.replayEngine(rf, m)
	fmt.Printf("engine concrete re-execution: reproduced=%v (%s)\n", ok, d)
	res := ok
	if !rf.EngineOnly {
		okN, dN := replayNative(e.repoDir, args[0], rf)
		fmt.Printf("native go test replay: reproduced=%v (%s)\n", okN, dN)
		res = res && okN
	}
	if res {
		fmt.Printf("VIOLATION property=%s replay=%s\n", rf.Property, args[0])
		return 1
	}
	return 0
}

// ---------- evidence ----------

func writeEvidence(e *Engine, prop, tier string, sums []*Summary, nViol int, inconclusive []string, wall float64) {
	type fnRow struct {
		Name   string `json:"name"`
		Instrs int64  `json:"instructions_executed"`
		Calls  int64  `json:"activations"`
	}
	var fns []fnRow
	var libfns []string
	e.fnMu.Lock()
	for fn, st := range e.fnStats {
		if e.isHarnessFn(fn) {
			continue
		}
		if fn.Pkg == e.pkg || (fn.Origin() != nil && fn.Origin().Pkg == e.pkg) || (fn.Parent() != nil && fn.Parent().Pkg == e.pkg) {
			fns = append(fns, fnRow{fn.String(), st.instrs, st.calls})
		} else {
			libfns = append(libfns, fn.String())
		}
	}
	e.fnMu.Unlock()
	sort.Slice(fns, func(i, j int) bool { return fns[i].Name < fns[j].Name })
	sort.Strings(libfns)
	paths, nontrivial, obl, dis, triv, unk := 0, 0, 0, 0, 0, 0
	pruned, infeasible := 0, 0
	var q SolverStats
	var samples []interface{}
	hrows := []map[string]interface{}{}
	cuts := map[string]int{}
	assumptions := map[string]bool{}
	exhaustive := len(inconclusive) == 0
	for _, s := range sums {
		paths += s.Paths - s.Outcomes["pruned-sleep"] - s.Outcomes["infeasible"]
		pruned += s.Outcomes["pruned-sleep"]
		infeasible += s.Outcomes["infeasible"]
		nontrivial += s.PathsWithObl
		obl += s.Obligations
		dis += s.Discharged
		triv += s.Trivial
		unk += s.UnknownObl
		q.add(&s.Solver)
		for k, n := range s.CutLoops {
			cuts[s.Harness+": "+k] += n
		}
		for a := range s.Assumptions {
			assumptions[a] = true
		}
		for f := range droppedHarnessFiles {
			assumptions["harness file "+f+" (other properties) left out: it does not compile against the tree under test"] = true
		}
		covs := []string{}
		for id, cs := range s.Covers {
			covs = append(covs, id)
			if len(samples) < 12 {
				samples = append(samples, map[string]interface{}{"harness": s.Harness, "cover_point": id, "witness_inputs": cs.Vars, "witness_buffers": cs.Arrays, "decisions": len(cs.Path)})
			}
		}
		sort.Strings(covs)
		hrows = append(hrows, map[string]interface{}{"harness": s.Harness, "paths": s.Paths, "outcomes": s.Outcomes, "covers_reached": covs, "covers_wanted": s.CoverWanted,
			"obligations": s.Obligations, "discharged_unsat": s.Discharged, "trivially_true": s.Trivial, "wall_s": s.WallS, "goroutines_max": s.MaxGoroutines, "sync_transitions": s.Transitions})
	}
	if len(samples) == 0 {
		samples = append(samples, map[string]interface{}{"note": "no cover point witness recorded"})
	}
	ev := map[string]interface{}{
		"property_id": prop,
		"tier":        tier,
		"seed":        e.seed,
		"level":       "other",
		"wall_s":      wall,
		"violations":  nViol,
		"coverage": map[string]interface{}{
			"explanation": "bounded symbolic execution of the real go/ssa of /repo's working tree (harness overlaid into package corebgp) with an SMT solver deciding every symbolic branch and every explicit/implicit assertion; each path covers all input values that follow it; verdict = unsat on every obligation of every feasible path within the stated bounds",
			"evaluations": paths, "distinct_nontrivial": nontrivial,
			"rule":        "an evaluation is one feasible control path (decision vector) through harness + code under test; it is non-trivial if at least one non-constant obligation (assertion or implicit Go panic condition) was decided by the solver on it; paths are distinct by construction (different decision vectors)",
			"samples":     samples,
			"obligations": obl, "discharged": dis, "trivially_true_obligations": triv, "undecided_obligations": unk,
			"checker_cmd":  fmt.Sprintf("/verif/vcheck %s %s", prop, tier),
			"trusted_base": []string{"gosym (this engine: go/ssa interpreter, term simplifier, SMT-LIB printer)", "golang.org/x/tools v0.29.0 go/ssa builder", "z3 4.8.12 / cvc5 1.0 (bv-as-int) / z3 5.1.0", "intrinsics listed in DESIGN.md §2.6", "environment models in /verif/harness/models_*.go"},
			"exhaustive":   exhaustive,
			"exhaustive_scope": "every feasible decision vector (data branches, verifChoose picks, scheduler picks) within the stated loop-unwinding and delay bounds was executed; schedules that only re-order independent steps of an executed one are pruned by sleep sets",
			"paths_pruned_by_sleep_sets": pruned, "paths_ended_by_an_unsatisfied_assumption": infeasible,
			"harnesses":    hrows,
			"functions_encoded": fns, "library_functions_executed_from_ssa": libfns,
			"bounds_hit": cuts,
			"queries":    map[string]interface{}{"total": q.Queries, "sat": q.Sat, "unsat": q.Unsat, "unknown": q.Unknown, "errors": q.Errors, "by_backend": map[string]int64{"z3-4.8.12": q.ByBackend[Z3], "cvc5-bv-as-int": q.ByBackend[CVC5Int], "z3-5.1.0": q.ByBackend[Z3New], "cvc5": q.ByBackend[CVC5]}, "cross_checked": q.CrossChk, "cross_disagreements": q.CrossDis},
			"solver_time_s": float64(q.TimeNs) / 1e9,
			"load_and_ssa_build_s": e.loadTime.Seconds(),
			"inconclusive":  inconclusive,
			"traces_validated_against_impl": tvCount(),
		},
		"assumptions": keys(assumptions),
	}
	writeJSON(filepath.Join(verifDir, "evidence", prop+".json"), ev)
}

func keys(m map[string]bool) []string {
	out := []string{}
	for k := range m {
		out = append(out, k)
	}
	sort.Strings(out)
	return out
}

// tvCount: number of observations found identical between engine and native build by the last
// `vcheck selftest` (translator validation on the repository's own test vectors).
func tvCount() int {
	b, err := os.ReadFile(filepath.Join(verifDir, "bin", "tv_result.json"))
	if err != nil {
		return 0
	}
	var r struct {
		N   int `json:"observations_compared"`
		Bad int `json:"mismatches"`
	}
	json.Unmarshal(b, &r)
	if r.Bad > 0 {
		return 0
	}
	return r.N
}
