package main

// One path execution: path condition, decisions, obligations, violations.

import (
	"time"
	"fmt"
	"sort"
	"strconv"
	"strings"
)

type Decision struct {
	V    int64   `json:"v"`
	Excl []int64 `json:"x,omitempty"`
	IsX  bool    `json:"e,omitempty"`
}

type NondetInfo struct {
	Name string `json:"name"`
	Kind string `json:"kind"` // u8 u16 u32 u64 int bool buf bytes
	W    int    `json:"w"`
	Max  int    `json:"max,omitempty"`
}

type Violation struct {
	ID        string            `json:"id"`
	Kind      string            `json:"kind"`
	Msg       string            `json:"msg"`
	Pos       string            `json:"pos"`
	Known     string            `json:"known,omitempty"`
	Vars      map[string]uint64 `json:"vars"`
	Arrays    map[string]map[uint64]uint64
	Decisions []Decision `json:"decisions"`
	Nondets   []NondetInfo
	Harness   string
	Events    []string
	Picks     []int
	EngineOnly bool
}

type PathResult struct {
	Outcome      string
	Decisions    []Decision
	Violations   []*Violation
	Covers       map[string]*CoverSample
	Unsupported  []string
	CutLoops     map[string]int
	NewWork      [][]Decision
	Obligations  int
	Discharged   int
	Trivial      int
	UnknownObl   int
	Asserts      int
	SymBranches  int
	Steps        int
	Transitions  int
	Goroutines   int
	Assumptions  map[string]bool
	Observations []string
	Wanted       []string
	Picks        int
	Concretized  int
}

type CoverSample struct {
	Vars   map[string]uint64            `json:"vars,omitempty"`
	Arrays map[string]map[uint64]uint64 `json:"arrays,omitempty"`
	Path   []Decision                   `json:"path,omitempty"`
}

type Run struct {
	deadline time.Time
	eng     *Engine
	harness string
	ctx     *TermCtx
	pc      []*Term
	pcSet   map[int]bool
	model   *Model
	prefix  []Decision
	pos     int
	trace   []Decision
	solver  *Portfolio
	globals map[interface{}]*Slot
	sched   *Sched
	res     *PathResult
	slotSeq int
	steps   int
	depth   int

	symBranches int
	loopBound   int
	delayBound  int
	timerMode   int
	raceDetect  bool
	nondets     []NondetInfo
	nondetCount map[string]int
	symStrSeq   int
	timersBySlot map[*Slot]*Timer
	concrete    *Model // concrete (replay) mode: all nondets fixed from this model
	known       map[string]bool
	clock       *Term
	dialHook    Value
	opaqueSeq   int
	uniq        map[string]*Slot
	ctxs        int
	inInit      bool
	choices     [][2]string
	picks       []int
	concretePicks []int
	cpPos       int
	engineOnly  bool
	sess        *Session
	raceSeen    map[string]bool
}

func (r *Run) addPC(c *Term) {
	if c.IsTrue() || r.pcSet[c.id] {
		return
	}
	// split conjunctions for better sharing
	if c.op == OpAnd {
		r.addPC(c.a[0])
		r.addPC(c.a[1])
		return
	}
	r.pcSet[c.id] = true
	r.pc = append(r.pc, c)
	if !r.eng.noFacts {
		r.ctx.AddFact(c)
	}
}

// solve checks pc ∧ extra. Returns status and (on sat) a model.
func (r *Run) solve(extra ...*Term) (string, *Model) {
	roots := make([]*Term, 0, len(r.pc)+len(extra))
	roots = append(roots, r.pc...)
	for _, e := range extra {
		if e.IsFalse() {
			return "unsat", nil
		}
		if !e.IsTrue() {
			roots = append(roots, e)
		}
	}
	if r.concrete != nil {
		// concrete mode: evaluate
		for _, t := range roots {
			v, _ := r.concrete.Eval(t)
			if v == 0 {
				return "unsat", nil
			}
		}
		return "sat", r.concrete
	}
	if !r.deadline.IsZero() && time.Now().After(r.deadline) {
		r.cut("time budget exhausted inside a path", false)
	}
	if r.sess == nil {
		r.sess = r.solver.openSession()
	}
	var xs []*Term
	for _, e := range extra {
		if !e.IsTrue() {
			xs = append(xs, e)
		}
	}
	sr, leaves, ref := r.sess.solve(r.ctx, r.pc, xs, true)
	if r.eng.dumpQueries != "" {
		script, _, _ := r.ctx.Script(roots)
		r.eng.dumpQuery(script, sr.Status)
	}
	if sr.Status != "sat" {
		return sr.Status, nil
	}
	m := NewModel()
	for _, l := range leaves {
		if l.op == OpVar {
			m.Vars[l.name] = sr.Values[l.name]
		} else {
			v := sr.Values[ref(l)]
			idx := sr.Values[ref(l.a[0])]
			a := m.Arrays[l.name]
			if a == nil {
				a = map[uint64]uint64{}
				m.Arrays[l.name] = a
			}
			a[idx] = v
		}
	}
	return "sat", m
}

func (r *Run) modelEval(c *Term) (bool, bool) {
	if r.model == nil {
		return false, false
	}
	v, ok := r.model.Eval(c)
	return v != 0, ok
}

func (r *Run) nextPrefix() (Decision, bool) {
	if r.pos < len(r.prefix) {
		d := r.prefix[r.pos]
		r.pos++
		return d, true
	}
	return Decision{}, false
}

func (r *Run) traceCopy(extra Decision) []Decision {
	w := make([]Decision, len(r.trace)+1)
	copy(w, r.trace)
	w[len(r.trace)] = extra
	return w
}

// branch decides a symbolic condition, forking when both sides are feasible.
func (r *Run) branch(c *Term) bool {
	r.symBranches++
	if r.symBranches > r.eng.maxSymBranches {
		r.cut("symbolic-branch-limit", false)
	}
	if d, ok := r.nextPrefix(); ok {
		r.trace = append(r.trace, d)
		if d.V == 1 {
			r.addPC(c)
		} else {
			r.addPC(r.ctx.Not(c))
		}
		if r.model != nil {
			if v, ok := r.modelEval(c); !ok || v != (d.V == 1) {
				r.model = nil
			}
		}
		return d.V == 1
	}
	nc := r.ctx.Not(c)
	var first bool
	mv, known := r.modelEval(c)
	if known {
		first = mv
	} else {
		st, m := r.solve(c)
		switch st {
		case "sat":
			first = true
			r.model = m
		case "unsat":
			// only the false side can be feasible
			r.trace = append(r.trace, Decision{V: 0})
			r.addPC(nc)
			return false
		default:
			first = true
			r.model = nil
		}
	}
	var st string
	if first {
		st, _ = r.solve(nc)
	} else {
		st, _ = r.solve(c)
	}
	if st != "unsat" {
		ov := int64(1)
		if first {
			ov = 0
		}
		r.res.NewWork = append(r.res.NewWork, r.traceCopy(Decision{V: ov}))
		if r.eng.debugPicks {
			r.res.Observations = append(r.res.Observations, "pick fork @ "+r.where())
		}
	}
	if first {
		r.trace = append(r.trace, Decision{V: 1})
		r.addPC(c)
	} else {
		r.trace = append(r.trace, Decision{V: 0})
		r.addPC(nc)
	}
	return first
}

// pick chooses among n always-feasible alternatives.
func (r *Run) pick(kind string, n int) int {
	if n <= 1 {
		return 0
	}
	k := r.pick0(kind, n)
	r.res.Picks++
	if r.eng.debugPicks {
		r.res.Observations = append(r.res.Observations, fmt.Sprintf("pick %s n=%d @ %s", kind, n, r.where()))
	}
	r.picks = append(r.picks, k)
	return k
}

func (r *Run) pick0(kind string, n int) int {
	if r.concrete != nil && r.concretePicks != nil {
		if r.cpPos < len(r.concretePicks) {
			k := r.concretePicks[r.cpPos]
			r.cpPos++
			if k >= n {
				r.unsupported("concrete replay: pick out of range")
			}
			return k
		}
		return 0
	}
	if d, ok := r.nextPrefix(); ok {
		r.trace = append(r.trace, d)
		if int(d.V) >= n {
			r.unsupported(fmt.Sprintf("replayed decision %d out of range %d (%s): non-deterministic re-execution", d.V, n, kind))
		}
		return int(d.V)
	}
	for i := 1; i < n; i++ {
		r.res.NewWork = append(r.res.NewWork, r.traceCopy(Decision{V: int64(i)}))
	}
	r.trace = append(r.trace, Decision{V: 0})
	return 0
}

// concreteInt returns a concrete value for t, enumerating feasible values by forking.
func (r *Run) concreteInt(t *Term, what string) int {
	if t.IsConst() {
		return int(sext64(t.c, t.w))
	}
	c := r.ctx
	var excl []int64
	if d, ok := r.nextPrefix(); ok {
		if !d.IsX {
			r.trace = append(r.trace, d)
			r.addPC(c.Eq(t, c.Const(t.w, uint64(d.V))))
			r.model = nil
			return int(d.V)
		}
		excl = d.Excl
	}
	for _, x := range excl {
		r.addPC(c.Not(c.Eq(t, c.Const(t.w, uint64(x)))))
	}
	if len(excl) > r.eng.maxConcretize {
		r.cut("concretize-limit: "+what, false)
	}
	var v uint64
	got := false
	if len(excl) == 0 && r.model != nil {
		if mv, ok := r.model.Eval(t); ok {
			v, got = mv, true
		}
	}
	if !got {
		st, m := r.solve()
		if st == "unsat" {
			r.res.Outcome = "infeasible"
			r.abort("infeasible")
		}
		if st != "sat" {
			r.unsupported("cannot concretise (solver unknown): " + what)
		}
		r.model = m
		m2 := *m
		m2.Total = true
		v, _ = m2.Eval(t)
	}
	r.res.Concretized++
	sv := sext64(v, t.w)
	// alternative: any other value
	nx := append(append([]int64(nil), excl...), sv)
	eq := c.Eq(t, c.Const(t.w, v))
	if st, _ := r.solve(c.Not(eq)); st != "unsat" {
		r.res.NewWork = append(r.res.NewWork, r.traceCopy(Decision{IsX: true, Excl: nx}))
	}
	r.trace = append(r.trace, Decision{V: sv})
	r.addPC(eq)
	if r.model != nil {
		if mv, ok := r.modelEval(eq); !ok || !mv {
			r.model = nil
		}
	}
	return int(sv)
}

func (r *Run) cut(reason string, accounted bool) {
	if r.res.CutLoops == nil {
		r.res.CutLoops = map[string]int{}
	}
	r.res.CutLoops[reason]++
	if accounted {
		r.res.Outcome = "cut-accounted"
	} else {
		r.res.Outcome = "cut-unaccounted"
	}
	r.abort("cut: " + reason)
}

func (r *Run) cutLoop(fr *frame, head interface{ String() string }) {
	pos := r.eng.posStr(fr.curPos)
	r.cut(fmt.Sprintf("loop in %s near %s unwound more than %d times", fr.fn.Name(), pos, r.loopBound), true)
}

// obligation: cond must hold on every feasible continuation of this path.
func (r *Run) obligation(kind string, cond *Term, msg string) {
	r.check(kind, "implicit", cond, msg, "", nil)
}

func (r *Run) check(id, kind string, cond *Term, msg string, knownID string, knownCond *Term) {
	if cond.IsTrue() {
		r.res.Trivial++
		return
	}
	if r.pos < len(r.prefix) {
		// decided by the run that produced this prefix
		r.addPC(cond)
		return
	}
	r.res.Obligations++
	c := r.ctx
	nc := c.Not(cond)
	report := func(m *Model, known string) {
		r.violationM(id, kind, msg, m, known)
	}
	knownActive := knownID != "" && r.eng.knownOpen[knownID]
	if !knownActive {
		knownCond = nil
	}
	violated := false
	if mv, ok := r.modelEval(cond); ok && !mv && knownCond == nil {
		report(r.model, "")
		violated = true
	} else {
		if knownCond == nil {
			st, m := r.solve(nc)
			switch st {
			case "unsat":
				r.res.Discharged++
			case "sat":
				report(m, "")
				violated = true
			default:
				r.res.UnknownObl++
			}
		} else {
			// outside the known region
			st, m := r.solve(nc, c.Not(knownCond))
			switch st {
			case "unsat":
			case "sat":
				report(m, "")
				violated = true
			default:
				r.res.UnknownObl++
			}
			st2, m2 := r.solve(nc, knownCond)
			switch st2 {
			case "sat":
				report(m2, knownID)
				violated = true
			case "unsat":
				if st == "unsat" {
					r.res.Discharged++
				}
			default:
				r.res.UnknownObl++
			}
		}
	}
	if cond.IsFalse() {
		r.res.Outcome = "violated"
		r.abort("assertion certainly false")
	}
	r.addPC(cond)
	if violated {
		r.model = nil
		if st, m := r.solve(); st == "unsat" {
			r.res.Outcome = "violated"
			r.abort("no continuation satisfies the assertion")
		} else if st == "sat" {
			r.model = m
		}
	}
}

func (r *Run) violation(id, msg string, m *Model) {
	if m == nil {
		if r.model != nil {
			m = r.model
		} else if st, mm := r.solve(); st == "sat" {
			m = mm
		} else if st == "unsat" {
			return // path was kept on an unknown; not feasible after all
		}
	}
	r.violationM(id, "implicit", msg, m, "")
}

func (r *Run) violationM(id, kind, msg string, m *Model, known string) {
	v := &Violation{ID: id, Kind: kind, Msg: msg, Pos: r.where(), Known: known, Harness: r.harness}
	v.Vars = map[string]uint64{}
	if m != nil {
		for k, x := range m.Vars {
			v.Vars[k] = x
		}
		v.Arrays = m.Arrays
	}
	for _, ch := range r.choices {
		k, _ := strconv.Atoi(ch[1])
		v.Vars[ch[0]] = uint64(k)
	}
	v.Picks = append([]int(nil), r.picks...)
	v.EngineOnly = r.engineOnly
	v.Decisions = append([]Decision(nil), r.trace...)
	v.Nondets = append([]NondetInfo(nil), r.nondets...)
	if r.sched != nil {
		v.Events = append([]string(nil), r.sched.events...)
	}
	r.res.Violations = append(r.res.Violations, v)
}

func (r *Run) assume(c *Term, what string) {
	if c.IsTrue() {
		return
	}
	if c.IsFalse() {
		r.res.Outcome = "infeasible"
		r.abort("assumption false")
	}
	if mv, ok := r.modelEval(c); (ok && mv) || r.pos < len(r.prefix) {
		r.addPC(c)
		return
	}
	r.addPC(c)
	st, m := r.solve()
	switch st {
	case "unsat":
		r.res.Outcome = "infeasible"
		r.abort("assumption infeasible")
	case "sat":
		r.model = m
	default:
		r.model = nil
	}
}

func (r *Run) cover(id string, cond *Term) {
	if _, done := r.res.Covers[id]; done || r.pos < len(r.prefix) {
		return
	}
	var m *Model
	if cond == nil || cond.IsTrue() {
		if r.model == nil {
			st, mm := r.solve()
			if st != "sat" {
				return
			}
			r.model = mm
		}
		m = r.model
	} else {
		if mv, ok := r.modelEval(cond); ok && mv {
			m = r.model
		} else {
			st, mm := r.solve(cond)
			if st != "sat" {
				return
			}
			m = mm
		}
	}
	cs := &CoverSample{Vars: m.Vars, Path: append([]Decision(nil), r.trace...)}
	if len(m.Arrays) > 0 {
		cs.Arrays = m.Arrays
	}
	r.res.Covers[id] = cs
}

// ---------- nondeterministic inputs ----------

func (r *Run) freshName(name string) string {
	if r.nondetCount == nil {
		r.nondetCount = map[string]int{}
	}
	k := r.nondetCount[name]
	r.nondetCount[name]++
	name = sanitize(name)
	if k == 0 {
		return name
	}
	return fmt.Sprintf("%s_%d", name, k)
}

func sanitize(s string) string {
	var sb strings.Builder
	for _, ch := range s {
		if ch >= 'a' && ch <= 'z' || ch >= 'A' && ch <= 'Z' || ch >= '0' && ch <= '9' || ch == '_' {
			sb.WriteRune(ch)
		} else {
			sb.WriteByte('_')
		}
	}
	return "v_" + sb.String()
}

func (r *Run) nondet(name, kind string, w int) *Term {
	n := r.freshName(name)
	r.nondets = append(r.nondets, NondetInfo{Name: n, Kind: kind, W: w})
	if r.concrete != nil {
		return r.ctx.Const(w, r.concrete.Vars[n])
	}
	return r.ctx.Var(n, w)
}

func sortedKeys(m map[string]int) []string {
	ks := make([]string, 0, len(m))
	for k := range m {
		ks = append(ks, k)
	}
	sort.Strings(ks)
	return ks
}
