#!/usr/bin/env python3
# tools/save_seed.py <round> <prop> <change> <needs> <caught_by;...> [ran props]: copy a confirmed seed from /tmp/seed/<prop>/out to seeded/S<round>_<prop>
import sys, json, shutil, os
rnd, prop, change, needs, caught = sys.argv[1:6]
ran = sys.argv[6] if len(sys.argv) > 6 else prop
sid = f"S{rnd}_{prop}"
dst = f"/verif/seeded/{sid}"
os.makedirs(dst, exist_ok=True)
for f in ("patch.diff", "zz_demo_test.go", "notes.md"):
    shutil.copy(f"/tmp/seed/{prop}/out/{f}", dst)
meta = {
 "seed_id": sid, "breaks_property": prop,
 "author": "independent sub-agent given only the property text (plus the instruction to avoid the ideas of earlier rounds) and a scratch worktree of /repo HEAD",
 "change": change, "needs_to_manifest": needs,
 "confirmed": "tools/confirm_seed.sh in a fresh scratch worktree of /repo HEAD: patch applies, go build ok, existing suite passes with the change, demo fails with the change, demo passes without it",
 "ran": f"tools/try_patch.sh seeded/{sid}/patch.diff {ran}",
 "caught_by": [c for c in caught.split(";") if c],
}
json.dump(meta, open(dst + "/meta.json", "w"), indent=1)
print("saved", dst)
