#!/bin/bash
# tools/regress_seeds.sh: every kept seed against the quick check of the property it breaks; one line per seed
for d in /verif/seeded/S*_C*; do
  id=$(basename $d); prop=${id#*_}
  out=$(/verif/tools/try_patch.sh $d/patch.diff $prop 2>&1 | grep -E "exit=" | head -1)
  echo "$id $out"
done
