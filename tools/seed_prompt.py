#!/usr/bin/env python3
# prints the prompt given to a seeding sub-agent for property <id> (property text only; nothing from /verif's machinery)
import json,sys
pid=sys.argv[1]
for l in open('/verif/properties.jsonl'):
    p=json.loads(l)
    if p['id']==pid: break
import os
avoid=json.load(open('/verif/tools/seed_avoid.json')).get(pid,[]) if os.path.exists('/verif/tools/seed_avoid.json') and len(sys.argv)>2 else []
wt=f"/tmp/seed/{pid}/wt"; out=f"/tmp/seed/{pid}/out"
AVOID = ("Earlier rounds already used these ideas for this property; choose something DIFFERENT in kind (another function, another mechanism): " + "; ".join(avoid) + ".\n\n") if avoid else ""
print(f"""You are helping to evaluate a verification framework by mutation seeding. You work ONLY inside the scratch git worktree {wt} (a checkout of the Go library jwhited/corebgp, a BGP implementation: fsm.go, peer.go, server.go, packet.go, update.go ...). Do not read or write anything under /verif or /repo. Write your results to {out}/.

Property of corebgp that is supposed to hold ({pid}: {p['title']}):

{p['statement']}

Quantified over: {p['quantifier']['text']}

{AVOID}Your task: produce ONE change to the library source (non-test .go files in {wt}) that BREAKS this property, while
 (1) the package still compiles (`go build ./...`, `go vet` not required),
 (2) the existing test suite still passes unedited: `cd {wt} && go test -vet=off -count=1 ./...`,
 (3) the breakage needs something SPECIFIC to manifest — a particular interleaving/timing, a fault at a particular point, a multi-step sequence of operations, an unusual/boundary input, or two cooperating edits that each look fine alone. It must NOT be something ordinary use (a plain session coming up and exchanging messages, the common input) would expose at once. Make it look like a plausible, realistic programming mistake or "refactoring"/"optimisation" a developer could make (off-by-one at a boundary, wrong operator in a rare branch, removed select arm, reordered statements, missing reset, narrowing conversion, etc.), not a deliberately planted `if x == 0xdeadbeef` backdoor.
 (4) you provide a DEMONSTRATION: a Go test file (package corebgp, so it may use unexported identifiers; name it zz_demo_test.go) or a small program, that FAILS with your change applied and PASSES on the unchanged source. The demonstration must be deterministic or nearly so (if it depends on timing, make it robust with generous timeouts / retries; say how often it fails). Use only the standard library and what is already in go.sum (testify is available). Loopback TCP (127.0.0.1, 127.0.0.2) and net.Pipe work in this sandbox; there is no other network.

Environment (every shell call; env is not kept between calls): `export GOFLAGS=-mod=mod GOPROXY=off GOSUMDB=off GOTOOLCHAIN=local`. Go 1.23 is the default toolchain. Nothing can be downloaded.

Deliverables in {out}/ :
  - patch.diff : `git -C {wt} diff` of the library change ONLY (do not include the demo test in it; no test files edited),
  - zz_demo_test.go (or demo/main.go) : the demonstration,
  - notes.md : which clause of the property is broken, what exactly is needed for it to manifest (input / schedule / sequence), why the existing tests do not notice, and the exact commands you ran with their outcome (existing suite with change: pass; demo with change: FAIL; demo without change: PASS).
Verify all three outcomes yourself before finishing. Do NOT use `git stash` (the stash is shared between worktrees of this repository and other agents are working in sibling worktrees): to test on the unchanged source use `git diff > /tmp/x.diff; git apply -R /tmp/x.diff; ...; git apply /tmp/x.diff` with a file name unique to you. Leave the worktree with your change applied and the demo file copied out to {out}/ (the demo file may also remain in the worktree, untracked). Keep the change small (a few lines). Final answer: a 5-line summary.""")
