#!/bin/bash
# tools/confirm_seed.sh <id> <srcdir>: confirm a seeded change in a fresh scratch worktree of /repo HEAD:
#  patch applies, package builds, existing suite passes with it, demo FAILS with it and PASSES without it.
id=$1; src=$2
export GOFLAGS=-mod=mod GOPROXY=off GOSUMDB=off GOTOOLCHAIN=local
wt=/tmp/confirm_$id; rm -rf $wt; git -C /repo worktree prune; git -C /repo worktree add --detach $wt HEAD >/dev/null 2>&1 || exit 3
cd $wt
res=""
git apply $src/patch.diff || { echo "$id: patch does not apply to current HEAD"; cd /; git -C /repo worktree remove --force $wt; exit 3; }
go build ./... || res="$res build-fail"
go test -vet=off -count=1 ./... >/tmp/confirm_$id.suite.log 2>&1 && res="$res suite-pass-with-change" || res="$res SUITE-FAILS-WITH-CHANGE"
cp $src/zz_demo_test.go . 2>/dev/null
go test -vet=off -count=1 -run 'Demo|demo|ZZ|Zz' -timeout 300s . >/tmp/confirm_$id.with.log 2>&1 && res="$res DEMO-PASSES-WITH-CHANGE" || res="$res demo-fails-with-change"
git apply -R $src/patch.diff
go test -vet=off -count=1 -run 'Demo|demo|ZZ|Zz' -timeout 300s . >/tmp/confirm_$id.without.log 2>&1 && res="$res demo-passes-without-change" || res="$res DEMO-FAILS-WITHOUT-CHANGE"
cd /; git -C /repo worktree remove --force $wt
echo "$id:$res"
