#!/bin/bash
# tools/try_patch.sh [-R] <patch> <prop> [prop...] : apply patch to /repo, run quick checks, restore /repo
rev=""; if [ "$1" = "-R" ]; then rev="-R"; shift; fi
patch=$1; shift
git -C /repo apply $rev "$patch" || { echo "patch does not apply"; exit 3; }
for p in "$@"; do
  out=$(/verif/vcheck $p quick 2>&1); code=$?
  echo "== $p exit=$code"; echo "$out" | grep -E "^VIOLATION|^KNOWN|^INCONCLUSIVE|counterexample|^OK|BROKEN" | head -8
done
git -C /repo checkout -- . 
