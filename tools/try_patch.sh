#!/bin/bash
# tools/try_patch.sh [-R] <patch> <prop> [prop...]
# Applies the patch to a scratch worktree of /repo HEAD (never to /repo itself), runs the quick checks
# against it (VERIF_REPO), prints their verdict lines, removes the worktree.
rev=""; if [ "$1" = "-R" ]; then rev="-R"; shift; fi
patch=$(readlink -f "$1"); shift
wt=/tmp/trypatch_$$; git -C /repo worktree prune; git -C /repo worktree add --detach $wt HEAD >/dev/null 2>&1 || { echo "cannot create worktree"; exit 3; }
trap 'git -C /repo worktree remove --force '$wt' >/dev/null 2>&1' EXIT
git -C $wt apply $rev "$patch" || { echo "patch does not apply"; exit 3; }
for p in "$@"; do
  out=$(VERIF_REPO=$wt /verif/vcheck $p quick 2>&1); code=$?
  echo "== $p exit=$code"; echo "$out" | grep -E "^VIOLATION|^KNOWN|^INCONCLUSIVE|counterexample|^OK|BROKEN" | cut -c1-260 | head -8
done
