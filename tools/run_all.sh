#!/bin/bash
# tools/run_all.sh [quick|thorough] [ids...]: run the registered checks one after the other against /repo, print one line each
tier=${1:-quick}; shift
ids=${@:-C01 C02 C03 C04 C05 C06 C07 C08 C09 C10 C11 C12 C13 C14 C15 C16 C17 C18 C19 C20}
for p in $ids; do
  s=$(date +%s); out=$(/verif/vcheck $p $tier 2>&1); code=$?; e=$(date +%s)
  echo "$p exit=$code $((e-s))s"
  echo "$out" | grep -E "^INCONCL|^VIOLATION|counterex|^KNOWN" | cut -c1-250
done
