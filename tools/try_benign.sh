#!/bin/bash
# tools/try_benign.sh <patch> [props...]: behaviour-preserving patch -> every check must still exit 0 (never VIOLATION)
patch=$(readlink -f "$1"); shift
props=${@:-C01 C02 C03 C04 C05 C06 C07 C08 C09 C10 C11 C12 C13 C14 C15 C16 C17 C18 C19 C20}
wt=/tmp/trybenign_$$; git -C /repo worktree prune; git -C /repo worktree add --detach $wt HEAD >/dev/null 2>&1 || { echo "cannot create worktree"; exit 3; }
trap 'git -C /repo worktree remove --force '$wt' >/dev/null 2>&1' EXIT
git -C $wt apply "$patch" || { echo "patch does not apply"; exit 3; }
(cd $wt && GOFLAGS=-mod=mod GOPROXY=off GOSUMDB=off GOTOOLCHAIN=local go test -vet=off -count=1 ./... >/dev/null 2>&1) || echo "SUITE FAILS WITH PATCH"
for p in $props; do
  out=$(VERIF_REPO=$wt /verif/vcheck $p quick 2>&1); code=$?
  echo "$p exit=$code"; [ $code -ne 0 ] && echo "$out" | grep -E "^VIOLATION|^INCONCLUSIVE|counterexample|BROKEN|does not compile|undefined" | cut -c1-260 | head -6
done
