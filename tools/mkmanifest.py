#!/usr/bin/env python3
# Regenerates /verif/MANIFEST.json from tools/claims.json (per claimed property: text, note, design_ref)
import json,subprocess
props=[json.loads(l) for l in open('/verif/properties.jsonl')]
claims=json.load(open('/verif/tools/claims.json'))
fixes=[l.split()[0] for l in subprocess.run(['git','-C','/repo','log','--format=%H %s'],capture_output=True,text=True).stdout.splitlines() if ' fix:' in ' '+l.split(' ',1)[1][:5] or l.split(' ',1)[1].startswith('fix:')]
m={"version":1,
 "setup_cmd":"cd /verif && ./vcheck build && ./vcheck selftest",
 "hooks":{"guard":"verif","enable":"harness files (/verif/harness, //go:build verif) are overlaid into package corebgp at load time (go/packages Overlay, -tags=verif); no file in /repo carries the tag and no hook commit exists","baseline_off_cmd":"cd /repo && go test -json -vet=off -count=1 -timeout 25m ./...","source_commits":[],"add_only":True},
 "engines":[{"name":"gosym","path":"/verif/engine","serves_properties":sorted(claims['claimed'].keys()),"kind_free_text":"own bounded symbolic executor for go/ssa (x/tools v0.29.0) emitting SMT-LIB2 (QF_ABV) to z3 4.8.12 / cvc5 1.0 --solve-bv-as-int / z3 5.1.0; paths, scheduler choices and inputs symbolic; counterexamples replayed natively (go test -overlay) or by concrete re-execution"}],
 "checks":[], "not_applicable":[],
 "notes":"exit 0 = held within stated bounds (KNOWN-FINDING lines allowed); exit 1 = reproduced violation (VIOLATION line); exit 2 = inconclusive / machinery broken (never success, never a violation). fix: commits in /repo are genuine-defect repairs recorded in known_findings.json: "+", ".join(fixes)}
for p in props:
    pid=p['id']
    if pid in claims['claimed']:
        c=claims['claimed'][pid]
        m['checks'].append({"property_id":pid,"quick_cmd":f"./vcheck {pid} quick","thorough_cmd":f"./vcheck {pid} thorough","evidence_file":f"/verif/evidence/{pid}.json","replay_cmd_template":"./vcheck replay {path}","engine":"gosym",
          "level_claimed":{"category":"other","text":c['text'],"design_ref":c.get('design_ref','DESIGN.md §5 '+pid)},
          "level_note":c['note'],"technique":c.get('technique',"bounded symbolic execution of the real go/ssa; SMT solver (z3/cvc5) decides every branch and assertion")})
    else:
        m['not_applicable'].append({"property_id":pid,"reason":claims['unclaimed'].get(pid,"check not built yet; will be claimed once its harness runs clean")})
json.dump(m,open('/verif/MANIFEST.json','w'),indent=1)
print("claimed:",[c['property_id'] for c in m['checks']])
