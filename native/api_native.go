//go:build verif && verifnative

package corebgp

// Native twin of the harness API: feeds a recorded counterexample (replay
// file) to the same harness code compiled against the real package.

import (
	"bytes"
	"encoding/json"
	"fmt"
	"os"
	"reflect"
	"strconv"
	"sync"
	"time"
	"unsafe"
)

type verifReplayFile struct {
	Property string                       `json:"property"`
	Harness  string                       `json:"harness"`
	AssertID string                       `json:"assert_id"`
	Vars     map[string]uint64            `json:"vars"`
	Arrays   map[string]map[string]uint64 `json:"arrays"`
}

var (
	verifRF       verifReplayFile
	verifMu       sync.Mutex
	verifCounts   = map[string]int{}
	verifFailures []string
)

type verifAssumeFailed struct{}

func verifLoadReplay(path string) error {
	b, err := os.ReadFile(path)
	if err != nil {
		return err
	}
	return json.Unmarshal(b, &verifRF)
}

func verifSanitize(s string) string {
	out := []byte("v_")
	for i := 0; i < len(s); i++ {
		ch := s[i]
		if ch >= 'a' && ch <= 'z' || ch >= 'A' && ch <= 'Z' || ch >= '0' && ch <= '9' || ch == '_' {
			out = append(out, ch)
		} else {
			out = append(out, '_')
		}
	}
	return string(out)
}

func verifFresh(name string) string {
	verifMu.Lock()
	defer verifMu.Unlock()
	k := verifCounts[name]
	verifCounts[name]++
	n := verifSanitize(name)
	if k == 0 {
		return n
	}
	return fmt.Sprintf("%s_%d", n, k)
}

func verifVal(name string) uint64 { return verifRF.Vars[verifFresh(name)] }

func verifU8(name string) uint8   { return uint8(verifVal(name)) }
func verifU16(name string) uint16 { return uint16(verifVal(name)) }
func verifU32(name string) uint32 { return uint32(verifVal(name)) }
func verifU64(name string) uint64 { return verifVal(name) }
func verifInt(name string) int    { return int(verifVal(name)) }
func verifBool(name string) bool  { return verifVal(name) != 0 }

func verifBuf(name string, minLen, maxLen int) []byte {
	n := verifFresh(name)
	l := minLen
	if minLen != maxLen {
		l = int(verifRF.Vars[n+"_len"])
	}
	b := make([]byte, l)
	for k, v := range verifRF.Arrays[n] {
		i, _ := strconv.Atoi(k)
		if i >= 0 && i < l {
			b[i] = byte(v)
		}
	}
	return b
}

func verifFail(id string) {
	verifMu.Lock()
	verifFailures = append(verifFailures, id)
	verifMu.Unlock()
	fmt.Printf("VERIF-REPLAY-FAIL assertion %s\n", id)
}

func verifAssume(c bool) {
	if !c {
		fmt.Printf("VERIF-REPLAY-ASSUME-FAILED (printed when it happens, so that its order relative to assertion failures is kept)\n")
		panic(verifAssumeFailed{})
	}
}
func verifAssert(id string, c bool) {
	if !c {
		verifFail(id)
	}
}
func verifAssertKnown(id string, c bool, knownID string, region bool) {
	if !c {
		verifFail(id)
	}
}
func verifAssertBytesEq(id string, a, b []byte) {
	if !bytes.Equal(a, b) {
		verifFail(id)
	}
}
func verifCover(id string)           {}
func verifCoverIf(id string, c bool) {}
func verifChoose(name string, n int) int {
	return int(verifVal(name))
}
func verifAnd(a, b bool) bool     { return a && b }
func verifOr(a, b bool) bool      { return a || b }
func verifNot(a bool) bool        { return !a }
func verifImplies(a, b bool) bool { return !a || b }
func verifIff(a, b bool) bool     { return a == b }
func verifIteInt(c bool, a, b int) int {
	if c {
		return a
	}
	return b
}
func verifIteU8(c bool, a, b uint8) uint8 {
	if c {
		return a
	}
	return b
}
func verifIteU16(c bool, a, b uint16) uint16 {
	if c {
		return a
	}
	return b
}
func verifIteU32(c bool, a, b uint32) uint32 {
	if c {
		return a
	}
	return b
}
func verifIteU64(c bool, a, b uint64) uint64 {
	if c {
		return a
	}
	return b
}
func verifIteBool(c bool, a, b bool) bool {
	if c {
		return a
	}
	return b
}
func verifLoopBound(k int)    {}
func verifDelayBound(d int)   {}
func verifTimerMode(m int)    {}
func verifRaceDetect(on bool) {}
func verifTier() int          { return 0 }
func verifSliceOff(s, base []byte) int {
	if cap(s) == 0 || cap(base) == 0 {
		if len(s) == 0 && len(base) == 0 {
			return 0
		}
	}
	ps := uintptr(unsafe.Pointer(unsafe.SliceData(s)))
	pb := uintptr(unsafe.Pointer(unsafe.SliceData(base)))
	if ps < pb || ps > pb+uintptr(cap(base)) {
		return -1
	}
	return int(ps - pb)
}
func verifSameArray(a, b []byte) bool { return verifSliceOff(a, b) >= 0 }
func verifQuiesce()                   { panic("verifQuiesce: engine-only harness") }
func verifYield()                     {}
func verifGoroutines() int            { panic("engine-only") }
func verifBlocked() string            { return "" }
func verifGID() int                   { return 0 }
func verifObserve(tag string, v any) {
	verifMu.Lock()
	verifObservations = append(verifObservations, tag+"="+verifObserveFmt(v))
	verifMu.Unlock()
}

var verifObservations []string

func verifObserveFmt(v any) string {
	switch x := v.(type) {
	case nil:
		return "nil"
	case bool:
		if x {
			return "true"
		}
		return "false"
	case string:
		return x
	case []byte:
		return fmt.Sprintf("hex:%x", x)
	}
	rv := reflect.ValueOf(v)
	switch rv.Kind() {
	case reflect.Int, reflect.Int8, reflect.Int16, reflect.Int32, reflect.Int64:
		return fmt.Sprint(rv.Int())
	case reflect.Uint, reflect.Uint8, reflect.Uint16, reflect.Uint32, reflect.Uint64, reflect.Uintptr:
		return fmt.Sprint(rv.Uint())
	case reflect.Bool:
		if rv.Bool() {
			return "true"
		}
		return "false"
	}
	return fmt.Sprintf("%v", v)
}
func verifUnsupported(msg string)               { panic("unsupported: " + msg) }
func verifFireTimer(t *time.Timer) bool         { panic("engine-only") }
func verifTimerArmed(t *time.Timer) bool        { panic("engine-only") }
func verifTimerDur(t *time.Timer) time.Duration { panic("engine-only") }
func verifTimerPending(t *time.Timer) bool      { panic("engine-only") }
func verifSetNow(ns int64)                      {}
func verifEngineOnly()                          { panic("engine-only harness cannot be replayed natively") }
func verifNote(s string)                        {}
func verifAt(b []byte, i int) uint8 {
	if i >= 0 && i < len(b) {
		return b[i]
	}
	return 0
}
func verifAtU32(s []uint32, i int) uint32 {
	if i >= 0 && i < len(s) {
		return s[i]
	}
	return 0
}
func verifWant(id string)                    {}
func verifRange(name string, lo, hi int) int { return int(verifVal(name)) }
func verifTimerResets(t *time.Timer) int     { panic("engine-only") }
