//go:build verif && verifnative

package corebgp

import (
	"os"
	"testing"
)

// TestVerifReplay runs the harness named in $VERIF_REPLAY's file on the recorded
// counterexample. Assertion failures print VERIF-REPLAY-FAIL; Go panics fail the test.
func TestVerifReplay(t *testing.T) {
	path := os.Getenv("VERIF_REPLAY")
	if path == "" {
		t.Skip("no VERIF_REPLAY")
	}
	if err := verifLoadReplay(path); err != nil {
		t.Fatal(err)
	}
	h, ok := verifHarnessTable[verifRF.Harness]
	if !ok {
		t.Fatalf("unknown harness %s", verifRF.Harness)
	}
	func() {
		defer func() {
			if e := recover(); e != nil {
				if _, isA := e.(verifAssumeFailed); isA {
					t.Logf("a harness assumption failed on the recorded inputs (see stdout for its position)")
					return
				}
				panic(e)
			}
		}()
		h()
	}()
	if len(verifFailures) > 0 {
		t.Fatalf("VERIF-REPLAY-FAIL %v", verifFailures)
	}
}

// TestVerifTV runs a translator-validation harness natively and prints its observations.
func TestVerifTV(t *testing.T) {
	name := os.Getenv("VERIF_TV")
	if name == "" {
		t.Skip("no VERIF_TV")
	}
	h, ok := verifHarnessTable[name]
	if !ok {
		t.Fatalf("unknown harness %s", name)
	}
	h()
	out := os.Getenv("VERIF_TV_OUT")
	f, err := os.Create(out)
	if err != nil {
		t.Fatal(err)
	}
	defer f.Close()
	for _, o := range verifObservations {
		f.WriteString(o + "\n")
	}
}
