//go:build verif

package corebgp

import (
	"context"
	"net"
	"time"
)

// Systematic exploration of environment event sequences on a real peer: at every step the harness
// enumerates the actions the environment can take in the current state (dial outcome, new inbound
// connection, a message / FIN on any live connection, expiry of any armed timer) and takes a
// symbolically chosen one; the system runs to quiescence after each; global monitors after every step.

type seqEnv struct {
	*penv
	all      []*symConn
	injected int
	decide   chan dialOutcome
	waiting  int
	minimal  bool
}

// dial hook variant: the harness decides the outcome of each pending dial
func (e *seqEnv) dialHook(ctx context.Context) (net.Conn, error) {
	e.waiting++
	e.dial.attempts++
	select {
	case oc := <-e.decide:
		e.waiting--
		if oc == dialOK {
			c := newStagedConn("out")
			e.conns[out] = c
			e.all = append(e.all, c)
			e.dial.conns = append(e.dial.conns, c)
			return c, nil
		}
		return nil, errDialRefused
	case <-ctx.Done():
		e.waiting--
		return nil, errDialCanceled
	}
}

var verifSeqEnv *seqEnv

type seqAction struct {
	kind int // 0 dial ok, 1 dial refused, 2 inject inbound, 3 message on conn, 4 fire timer
	c    *symConn
	msg  int
	t    *time.Timer
	name string
}

const (
	saOpen = iota
	saKeepalive
	saUpdate
	saCease
	saBadOpen
	saBadMarker
	saFin
	saNumMsgs
)

func (e *seqEnv) timers() (ts []*time.Timer, names []string) {
	add := func(t *time.Timer, n string) {
		if t != nil && verifTimerArmed(t) && verifTimerDur(t) != 0 {
			ts = append(ts, t)
			names = append(names, n)
		}
	}
	for i := 0; i < 2; i++ {
		if f := e.p.fsms[i]; f != nil {
			add(f.idleHoldTimer, "idle-hold")
			add(f.connectRetryTimer, "connect-retry")
			add(f.holdTimer, "hold")
			add(f.keepAliveTimer, "keepalive")
		}
	}
	add(e.p.startupDelayTimer, "startup-delay")
	return
}

func (e *seqEnv) actions(light bool) []seqAction {
	var as []seqAction
	if e.minimal {
		// two-connection menu: dial succeeds, one inbound connection, {OPEN, KEEPALIVE, FIN} on live connections
		if e.waiting > 0 {
			as = append(as, seqAction{kind: 0, name: "dial-ok"})
		}
		if e.injected < 1 {
			as = append(as, seqAction{kind: 2, name: "inbound"})
		}
		for _, c := range e.all {
			if c.closed || c.final {
				continue
			}
			for _, m := range []int{saOpen, saKeepalive, saFin} {
				as = append(as, seqAction{kind: 3, c: c, msg: m, name: "msg"})
			}
		}
		return as
	}
	if e.waiting > 0 {
		as = append(as, seqAction{kind: 0, name: "dial-ok"}, seqAction{kind: 1, name: "dial-refused"})
	}
	if e.injected < 2 {
		as = append(as, seqAction{kind: 2, name: "inbound"})
	}
	for _, c := range e.all {
		if c.closed || c.final {
			continue
		}
		for m := 0; m < saNumMsgs; m++ {
			if light && (m == saBadOpen || m == saBadMarker || m == saUpdate) {
				continue
			}
			as = append(as, seqAction{kind: 3, c: c, msg: m, name: "msg"})
		}
	}
	ts, names := e.timers()
	for i, t := range ts {
		if light && (names[i] == "keepalive") {
			continue
		}
		as = append(as, seqAction{kind: 4, t: t, name: names[i]})
	}
	return as
}

func (e *seqEnv) do(a seqAction) {
	switch a.kind {
	case 0:
		e.decide <- dialOK
	case 1:
		e.decide <- dialRefused
	case 2:
		c := newStagedConn("in")
		e.injected++
		e.all = append(e.all, c)
		e.p.incomingConnection(c)
	case 3:
		switch a.msg {
		case saOpen:
			a.c.send(verifMsgOpen, e.openBody())
		case saKeepalive:
			a.c.send(verifMsgKeepalive, nil)
		case saUpdate:
			a.c.send(verifMsgUpdate, []byte{0, 0, 0, 0})
		case saCease:
			a.c.send(verifMsgNotification, []byte{NOTIF_CODE_CEASE, 0})
		case saBadOpen:
			b := e.openBody()
			b[0] = 3 // unsupported version
			a.c.send(verifMsgOpen, b)
		case saBadMarker:
			bad := mkFrame(verifMsgKeepalive, nil)
			bad[5] = 0
			a.c.chunks = append(a.c.chunks, bad)
			a.c.deliver(len(a.c.chunks), false)
		case saFin:
			a.c.remoteClose(1)
		}
	case 4:
		verifFireTimer(a.t)
	}
	verifQuiesce()
}

func (e *seqEnv) monitors() {
	c01Monitors(e.penv, e.all)
	p := e.p
	// manager invariants
	for i := 0; i < 2; i++ {
		if p.fsms[i] == nil {
			verifAssert("no-fsm-means-disabled", p.fsmState[i] == disabledState)
		}
		if p.fsmState[i] == establishedState {
			verifAssert("established-excludes-the-other-fsm", p.fsms[verifOtherDir(i)] == nil)
		}
	}
	verifAssert("not-both-openconfirm", !(p.fsmState[0] == openConfirmState && p.fsmState[1] == openConfirmState))
	if p.inHoldDown {
		verifAssert("hold-down-means-no-fsm", p.fsms[0] == nil && p.fsms[1] == nil)
		verifAssert("hold-down-timer-armed", verifTimerArmed(p.startupDelayTimer))
	}
	est := 0
	for i := 0; i < 2; i++ {
		if p.fsmState[i] == establishedState {
			est++
		}
	}
	verifAssert("plugin-and-manager-agree-on-established", est == e.pl.nEstab-e.pl.nClose)
	// every connection is either owned by a live FSM or closed (no leak)
	for _, c := range e.all {
		owned := false
		for i := 0; i < 2; i++ {
			if f := p.fsms[i]; f != nil && f.conn == c {
				owned = true
			}
		}
		verifAssert("connection-owned-or-closed", owned || c.closed)
	}
	// a non-passive peer that is not held down always has somebody trying (C11)
	if !p.options.passive && !p.inHoldDown {
		verifAssert("active-peer-always-has-an-fsm", p.fsms[0] != nil || p.fsms[1] != nil)
	}
}

func seqRun(K int, light bool) { seqRunM(K, light, false) }

func seqRunM(K int, light, minimal bool) {
	verifEngineOnly()
	e := &seqEnv{penv: newPenv(false), decide: make(chan dialOutcome), minimal: minimal}
	verifSeqEnv = e
	verifDialOverride = e.dialHook
	e.dial.outcomes = nil
	e.dial.mk = nil
	e.p.options.idleHoldTime = 5 * time.Second
	e.p.start()
	verifQuiesce()
	e.monitors()
	for k := 0; k < K; k++ {
		as := e.actions(light)
		// one more choice: stop the peer now (so the final stop is exercised after every prefix)
		k := verifChoose("action", len(as)+1)
		if k == len(as) {
			break
		}
		e.do(as[k])
		e.monitors()
	}
	verifCover("sequence-explored")
	verifCoverIf("sequence-reached-established", e.pl.nEstab >= 1)
	verifCoverIf("sequence-reached-hold-down", e.p.inHoldDown)
	e.p.stop()
	for _, c := range e.all {
		verifAssert("stop-closes-every-connection", c.closed)
	}
	verifAssert("stop-delivers-every-onclose", e.pl.nClose == e.pl.nEstab)
	verifQuiesce()
	verifAssert("stop-leaves-no-goroutine", verifGoroutines() == 0)
}

func Verif_C01_event_sequences() {
	K := 4
	if verifTier() >= 1 {
		K = 5
	}
	verifNote("systematic environment event sequences on a real active peer from the real start state: at each of K steps (4 quick / 5 thorough) one of the actions possible in the current state — dial succeeds / is refused, a new inbound connection (at most 2), on any live connection {valid OPEN, KEEPALIVE, Cease, FIN}, expiry of any armed timer (idle-hold, connect-retry, hold, start-up delay) — or 'stop now' is taken (symbolic choice over the enumerated set; so peer.stop() is exercised in every state reachable within K steps), the system runs to quiescence (base schedule), and the callback-grammar monitors plus manager invariants (established excludes the other FSM, not both OpenConfirm, hold-down implies no FSM, every connection owned by a live FSM or closed, an active peer that is not held down always has an FSM) are asserted; finally stop")
	seqRun(K, true)
}

// the same with the full action menu (incl. malformed OPEN, corrupted marker, UPDATE, keep-alive timer)
func VerifT_C01_event_sequences_full_menu() {
	verifNote("as Verif_C01_event_sequences with the full action menu (also OPEN with unsupported version, corrupted marker, UPDATE, keep-alive timer expiry), 4 steps")
	seqRun(4, false)
}

// C05: longer sequences over the two connections of one peer with a small action menu (stale manager
// state after one connection ends must not crash or wedge the handling of the other)
func Verif_C05_two_connection_sequences() {
	K := 5
	if verifTier() >= 1 {
		K = 7
	}
	verifNote("event sequences of K steps (5 quick / 7 thorough) with the menu {dial succeeds, one inbound connection, on any live connection: valid OPEN / KEEPALIVE / FIN} and local/remote identifiers symbolic: no panic, no deadlock, manager invariants and callback monitors after every step, then stop")
	seqRunM(K, true, true)
}
