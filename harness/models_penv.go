//go:build verif

package corebgp

// penv: a real peer (manager + FSMs + readers) with a scripted remote.

type penv struct {
	cfg      symCfg
	remoteID uint32
	pl       *monPlugin
	p        *peer
	conns    [2]*symConn // current conn per direction (out: handed out by the dial script)
	dial     *dialScript
	nOut     int
}

func newPenv(passive bool) *penv {
	verifEngineOnly()
	verifDelayBound(0)
	e := &penv{}
	e.cfg = symConfig()
	verifAssume(e.cfg.holdSec >= 3)
	e.remoteID = verifU32("remoteID")
	verifAssume(verifAnd(e.remoteID>>24 < 224, verifNot(verifAnd(e.cfg.localAS == e.cfg.remoteAS, e.cfg.localID == e.remoteID))))
	e.pl = newMonPlugin()
	e.p = mkPeer(e.cfg, e.pl)
	e.p.options.passive = passive
	e.dial = &dialScript{outcomes: []dialOutcome{dialOK}, mk: func(n int) *symConn {
		c := newStagedConn("out")
		e.conns[out] = c
		e.nOut++
		return c
	}}
	verifDial = e.dial
	return e
}

func (e *penv) openBody() []byte { return mkOpenBody(e.cfg.remoteAS, 90, e.remoteID) }

// inject hands a fresh inbound connection to the peer manager.
func (e *penv) inject() *symConn {
	c := newStagedConn("in")
	e.p.incomingConnection(c)
	verifQuiesce()
	return c
}

// bring direction i to the given session state (stOpenSent/stOpenConfirm/stEstablished) and quiesce.
func (e *penv) bring(i int, state int) *symConn {
	var c *symConn
	if i == out {
		verifQuiesce()
		c = e.conns[out]
	} else {
		c = e.inject()
		e.conns[in] = c
	}
	if c == nil {
		verifUnsupported("no connection for direction")
		return nil
	}
	if state >= stOpenConfirm {
		c.send(verifMsgOpen, e.openBody())
		verifQuiesce()
	}
	if state >= stEstablished {
		c.send(verifMsgKeepalive, nil)
		verifQuiesce()
	}
	return c
}
