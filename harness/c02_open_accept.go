//go:build verif

package corebgp

import "errors"

// C02 — exactly the valid OPENs are accepted, others refused with a NOTIFICATION
// that applies to a fault actually present. (Decode/validate half; the FSM half —
// KEEPALIVE reply, OnOpenMessage, close — is in c02_fsm.go.)

type c02cap struct {
	code   uint8
	off, n int // offset/length of the value inside the body
}

type c02info struct {
	short, inconsistent, unknownParam bool
	bounded                           bool
	caps                              []c02cap
	n4                                int
	bad4len, bad4val                  bool
}

func c02Parse(b []byte, remoteAS uint32, P, C int) c02info {
	var r c02info
	r.bounded = true
	L := len(b)
	if L < 10 {
		r.short = true
		return r
	}
	if int(verifAt(b, 9)) != L-10 || L == 10 {
		r.inconsistent = true
		return r
	}
	pos := 10
	for p := 0; pos < L; p++ {
		if p == P {
			r.bounded = false
			return r
		}
		if pos+2 > L {
			r.inconsistent = true
			return r
		}
		ptype := verifAt(b, pos)
		plen := int(verifAt(b, pos+1))
		if pos+2+plen > L {
			r.inconsistent = true
			return r
		}
		if ptype != 2 {
			r.unknownParam = true
			return r
		}
		cpos, cend := pos+2, pos+2+plen
		if cpos == cend {
			r.inconsistent = true
			return r
		}
		for c := 0; cpos < cend; c++ {
			if c == C {
				r.bounded = false
				return r
			}
			if cpos+2 > cend {
				r.inconsistent = true
				return r
			}
			code := verifAt(b, cpos)
			clen := int(verifAt(b, cpos+1))
			if cpos+2+clen > cend {
				r.inconsistent = true
				return r
			}
			r.caps = append(r.caps, c02cap{code: code, off: cpos + 2, n: clen})
			if code == CAP_FOUR_OCTET_AS {
				r.n4++
				if clen != 4 {
					r.bad4len = true
				} else if c18be32(b, cpos+2) != remoteAS {
					r.bad4val = true
				}
			}
			cpos += 2 + clen
		}
		pos = cend
	}
	return r
}

func c02Notif(err error) (*Notification, bool) {
	var ne *notificationError
	if errors.As(err, &ne) {
		return ne.notification, ne.out
	}
	return nil, false
}

func c02Run(tag string, maxLen, P, C int) {
	verifLoopBound(max(P, C) + 2)
	b := verifBuf("open", 0, maxLen)
	localID, localAS, remoteAS := verifU32("localID"), verifU32("localAS"), verifU32("remoteAS")
	verifAssume(verifAnd(localAS != 0, remoteAS != 0))
	info := c02Parse(b, remoteAS, P, C)
	if !info.bounded {
		return
	}
	m, err := messageFromBytes(b, verifMsgOpen)
	if info.short || info.inconsistent || info.unknownParam {
		verifAssert("malformed-open-not-decoded", verifAnd(err != nil, m == nil))
		n, out := c02Notif(err)
		if n == nil {
			verifAssert("decode-fault-yields-notification", false)
			return
		}
		verifAssert("notification-is-outbound", out)
		switch {
		case info.short:
			verifAssert("short-body-is-bad-message-length", verifAnd(n.Code == NOTIF_CODE_MESSAGE_HEADER_ERR, n.Subcode == NOTIF_SUBCODE_BAD_MESSAGE_LEN))
			verifCover(tag + "short-body")
		case info.inconsistent:
			verifAssert("inconsistent-list-is-open-error-0", verifAnd(n.Code == NOTIF_CODE_OPEN_MESSAGE_ERR, n.Subcode == 0))
			verifCover(tag + "inconsistent-list")
		default:
			verifAssert("unknown-parameter-is-subcode-4", verifAnd(n.Code == NOTIF_CODE_OPEN_MESSAGE_ERR, n.Subcode == NOTIF_SUBCODE_UNSUPPORTED_OPTIONAL_PARAM))
			verifCover(tag + "unknown-param")
		}
		return
	}
	verifAssert("wellformed-open-decodes", err == nil)
	o, isOpen := m.(*openMessage)
	if err != nil || !isOpen {
		return
	}
	verr := o.validate(localID, localAS, remoteAS)
	// fault predicates (RFC 4271 §6.2, RFC 6793, RFC 6286, RFC 5492)
	asField := uint16(verifAt(b, 1))<<8 | uint16(verifAt(b, 2))
	hold := uint16(verifAt(b, 3))<<8 | uint16(verifAt(b, 4))
	id := c18be32(b, 5)
	fVer := verifAt(b, 0) != 4
	isTrans := asField == 23456
	fAS := verifOr(verifAnd(!isTrans, uint32(asField) != remoteAS), verifOr(info.bad4val, verifAnd(isTrans, info.n4 == 0)))
	fHold := verifOr(hold == 1, hold == 2)
	fID := verifOr(verifAnd(verifAt(b, 5) >= 224, verifAt(b, 5) <= 239), verifAnd(localAS == remoteAS, localID == id))
	fNoCap := info.n4 == 0
	fCapLen := info.bad4len
	anyFault := verifOr(verifOr(fVer, fAS), verifOr(verifOr(fHold, fID), verifOr(fNoCap, fCapLen)))
	// don't-care: AS_TRANS in the 2-octet field although the configured AS is a 16-bit number other than 23456
	dontCare := verifAnd(isTrans, verifAnd(remoteAS <= 65535, remoteAS != 23456))
	if verr == nil {
		verifAssert("accepted-open-has-no-fault", !anyFault)
		verifAssert("identifier-is-bytes-5-8", o.bgpID == id)
		caps := o.getCapabilities()
		verifAssert("capability-count", len(caps) == len(info.caps))
		for i := 0; i < len(caps) && i < len(info.caps); i++ {
			verifAssert("capability-code", caps[i].Code == info.caps[i].code)
			verifAssert("capability-length", len(caps[i].Value) == info.caps[i].n)
			verifAssert("capability-bytes", verifImplies(info.caps[i].n > 0, verifSliceOff(caps[i].Value, b) == info.caps[i].off))
		}
		verifCover(tag + "accepted")
		return
	}
	verifAssert("rejected-open-has-a-fault", verifOr(anyFault, dontCare))
	n, out := c02Notif(verr)
	if n == nil {
		verifAssert("validation-fault-yields-notification", false)
		return
	}
	verifAssert("notification-is-outbound", out)
	verifAssert("open-message-error", n.Code == NOTIF_CODE_OPEN_MESSAGE_ERR)
	sub := n.Subcode
	applies := verifOr(
		verifOr(verifAnd(sub == NOTIF_SUBCODE_UNSUPPORTED_VERSION_NUM, fVer), verifAnd(sub == NOTIF_SUBCODE_BAD_PEER_AS, verifOr(fAS, dontCare))),
		verifOr(verifOr(verifAnd(sub == NOTIF_SUBCODE_UNACCEPTABLE_HOLD_TIME, fHold), verifAnd(sub == NOTIF_SUBCODE_BAD_BGP_ID, fID)),
			verifOr(verifAnd(sub == NOTIF_SUBCODE_UNSUPPORTED_CAPABILITY, fNoCap), verifAnd(sub == 0, fCapLen))))
	verifAssert("notification-applies-to-a-fault-present", applies)
	if n.Subcode == NOTIF_SUBCODE_UNSUPPORTED_VERSION_NUM {
		verifAssert("version-data-0004", verifAnd(len(n.Data) == 2, verifAnd(verifAt(n.Data, 0) == 0, verifAt(n.Data, 1) == 4)))
		verifCover(tag + "bad-version")
	}
	if n.Subcode == NOTIF_SUBCODE_UNSUPPORTED_CAPABILITY {
		d := n.Data
		verifAssert("missing-cap-data-is-the-capability", verifAnd(len(d) == 6, verifAnd(verifAnd(verifAt(d, 0) == CAP_FOUR_OCTET_AS, verifAt(d, 1) == 4), c18be32(d, 2) == remoteAS)))
		verifCover(tag + "missing-four-octet-cap")
	}
	if n.Subcode == NOTIF_SUBCODE_BAD_PEER_AS {
		verifCover(tag + "bad-as")
	}
	if n.Subcode == NOTIF_SUBCODE_BAD_BGP_ID {
		verifCover(tag + "bad-id")
	}
	if n.Subcode == NOTIF_SUBCODE_UNACCEPTABLE_HOLD_TIME {
		verifCover(tag + "bad-hold")
	}
}

var c02Wanted = []string{"short-body", "inconsistent-list", "unknown-param", "accepted", "bad-version", "missing-four-octet-cap", "bad-as", "bad-id", "bad-hold"}

func Verif_C02_open_structured() {
	P, C := 1, 2
	if verifTier() >= 1 {
		P, C = 1, 3
	}
	verifNote("OPEN decode+validate: body length symbolic 0..4077, at most P optional parameters x C capabilities each (1x2 quick / 1x3 thorough; two parameters are covered by the small-body mode from 18 bytes on); local id / local AS / remote AS symbolic 32-bit; don't-care: AS_TRANS in the 2-octet field although the configured remote AS is a 16-bit number other than 23456")
	for _, w := range c02Wanted {
		verifWant("st-" + w)
	}
	c02Run("st-", 4077, P, C)
}

func Verif_C02_open_small() {
	n := 18
	if verifTier() >= 1 {
		n = 20
	}
	verifNote("OPEN decode+validate: every body of length <= 18 (quick) / 20 (thorough)")
	for _, w := range c02Wanted {
		verifWant("sm-" + w)
	}
	c02Run("sm-", n, 3, 4)
}
