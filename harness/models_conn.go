//go:build verif

package corebgp

import (
	"errors"
	"io"
	"net"
	"net/netip"
	"time"
)

// ---------- symConn: model of a TCP connection (net.Conn) ----------
//
// Inbound: the remote's byte stream is `in` (contents and length may be symbolic).
// Bytes up to `avail` can be read now; the harness releases more with deliver().
// Read returns n bytes with 1 <= n <= min(len(p), available): n is symbolic for the
// first `shortReads` calls (every segmentation within that budget), maximal afterwards.
// When everything released has been read: endMode 0 = block until Close (then error),
// 1 = EOF, 2 = connection reset error.
// Outbound: Write appends a copy of p to the ghost log atomically (net.Conn contract)
// unless failWrites is set. Close is idempotent and wakes blocked reads.

type symAddr struct{ ap string }

func (a symAddr) Network() string { return "tcp" }
func (a symAddr) String() string  { return a.ap }

var errSymClosed = errors.New("use of closed network connection")
var errSymReset = errors.New("connection reset by peer")
var errSymWrite = errors.New("write: broken pipe")
var errSymTimeout = errors.New("write: i/o timeout")

type symConn struct {
	name            string
	chunks          [][]byte // inbound stream as a sequence of chunks (a Read never spans two chunks: a legal short read)
	ci, off         int      // read cursor: chunk index, offset inside it
	pos             int      // total bytes consumed
	avail           int      // chunks [0,avail) have arrived
	final           bool     // no more data will be delivered
	endMode         int
	shortReads      int
	wdl             time.Time // write deadline (zero: none)
	reads           int
	more            chan struct{}
	closed          bool
	closedCh        chan struct{}
	closes          int
	writes          [][]byte
	failWrites      bool
	writeAfterClose int
	local           netip.Addr
	remote          netip.Addr
}

// newSymConn: the whole stream `in` has arrived (one chunk); see addFrame for framed streams.
func newSymConn(name string, in []byte, endMode int) *symConn {
	c := &symConn{name: name, final: true, endMode: endMode, more: make(chan struct{}, 1), closedCh: make(chan struct{})}
	if len(in) > 0 {
		c.chunks = append(c.chunks, in)
	}
	c.avail = len(c.chunks)
	return c
}

// addFrame appends a well-formed message (header chunk + body chunk) to the inbound stream.
func (c *symConn) addFrame(typ uint8, body []byte) {
	c.chunks = append(c.chunks, mkFrame(typ, nil))
	h := c.chunks[len(c.chunks)-1]
	n := 19 + len(body)
	h[16], h[17] = byte(n>>8), byte(n)
	if len(body) > 0 {
		c.chunks = append(c.chunks, body)
	}
	c.avail = len(c.chunks)
}

func (c *symConn) addBytes(b []byte) {
	if len(b) > 0 {
		c.chunks = append(c.chunks, b)
	}
	c.avail = len(c.chunks)
}

// deliver makes chunks [0,upTo) readable (staged arrival).
func (c *symConn) deliver(upTo int, final bool) {
	c.avail = upTo
	c.final = final
	select {
	case c.more <- struct{}{}:
	default:
	}
}

func (c *symConn) Read(p []byte) (int, error) {
	for {
		if c.closed {
			return 0, errSymClosed
		}
		if len(p) == 0 {
			return 0, nil
		}
		if c.ci < c.avail {
			ch := c.chunks[c.ci]
			n := len(ch) - c.off
			if len(p) < n {
				n = len(p)
			}
			if c.shortReads > 0 && n > 1 {
				c.shortReads--
				n = verifRange("readn", 1, n)
			}
			copy(p[:n], ch[c.off:c.off+n])
			c.off += n
			c.pos += n
			c.reads++
			if c.off == len(ch) {
				c.ci++
				c.off = 0
			}
			return n, nil
		}
		if c.final {
			switch c.endMode {
			case 1:
				return 0, io.EOF
			case 2:
				return 0, errSymReset
			}
			<-c.closedCh
			return 0, errSymClosed
		}
		select {
		case <-c.more:
		case <-c.closedCh:
			return 0, errSymClosed
		}
	}
}

func (c *symConn) Write(p []byte) (int, error) {
	verifYield()
	if c.closed {
		c.writeAfterClose++
		return 0, errSymClosed
	}
	if c.failWrites {
		return 0, errSymWrite
	}
	if !c.wdl.IsZero() && !c.wdl.After(time.Now()) {
		return 0, errSymTimeout
	}
	cp := make([]byte, len(p))
	copy(cp, p)
	c.writes = append(c.writes, cp)
	return len(p), nil
}

func (c *symConn) Close() error {
	c.closes++
	if !c.closed {
		c.closed = true
		close(c.closedCh)
	}
	return nil
}

func (c *symConn) LocalAddr() net.Addr {
	return symAddr{net.JoinHostPort(c.local.String(), "179")}
}
func (c *symConn) RemoteAddr() net.Addr {
	return symAddr{net.JoinHostPort(c.remote.String(), "40000")}
}

// write deadlines are honoured (a Write at or after the deadline fails, as net.Conn documents);
// read deadlines are not modelled (corebgp sets none)
func (c *symConn) SetDeadline(t time.Time) error      { c.wdl = t; return nil }
func (c *symConn) SetReadDeadline(t time.Time) error  { return nil }
func (c *symConn) SetWriteDeadline(t time.Time) error { c.wdl = t; return nil }

// frame helpers (reference, RFC 4271 §4.1)

// isFrame reports whether w is exactly one message of type typ with a body of n bytes.
func isFrame(w []byte, typ uint8, n int) bool {
	ok := verifAnd(len(w) == 19+n, verifAnd(int(verifAt(w, 16))<<8|int(verifAt(w, 17)) == 19+n, verifAt(w, 18) == typ))
	k := verifInt("mk")
	return verifAnd(ok, verifImplies(verifAnd(k >= 0, k < 16), verifAt(w, k) == 0xFF))
}

func isKeepalive(w []byte) bool { return isFrame(w, verifMsgKeepalive, 0) }

// isNotification: w is one NOTIFICATION frame with the given code/subcode and dataLen data bytes.
func isNotification(w []byte, code, sub uint8, dataLen int) bool {
	return verifAnd(isFrame(w, verifMsgNotification, 2+dataLen), verifAnd(verifAt(w, 19) == code, verifAt(w, 20) == sub))
}

func mkFrame(typ uint8, body []byte) []byte {
	h := make([]byte, 19)
	for i := 0; i < 16; i++ {
		h[i] = 0xFF
	}
	n := 19 + len(body)
	h[16], h[17], h[18] = byte(n>>8), byte(n), typ
	return append(h, body...)
}

// a valid OPEN body for (as, hold, id) with the 4-octet-AS capability
func mkOpenBody(as uint32, hold uint16, id uint32) []byte {
	as2 := verifIteU16(as <= 65535, uint16(as), 23456)
	return []byte{4, byte(as2 >> 8), byte(as2), byte(hold >> 8), byte(hold), byte(id >> 24), byte(id >> 16), byte(id >> 8), byte(id),
		8, 2, 6, CAP_FOUR_OCTET_AS, 4, byte(as >> 24), byte(as >> 16), byte(as >> 8), byte(as)}
}

// ---------- monPlugin: recording plugin with symbolic answers ----------

const (
	evGetCaps = iota
	evOnOpen
	evOnEstablished
	evOnClose
	evHandler
)

type pevent struct {
	kind int
	gid  int
}

type monPlugin struct {
	events             []pevent
	active             int // callbacks currently executing (overlap detection)
	overlap            bool
	estab              bool // between OnEstablished return and OnClose entry
	badOrder           bool
	nEstab             int
	nClose             int
	nOpen              int
	nGetCaps           int
	caps               []Capability
	openNotif          *Notification // returned from OnOpenMessage
	nilHandler         bool
	handlerNotifAt     int // handler call index that returns handlerNotif (-1: never)
	handlerNotif       *Notification
	updates            [][]byte
	updateGids         []int
	writer             UpdateMessageWriter
	writeInEstablished []byte // WriteUpdate(body) from inside OnEstablished when non-nil
	writeInHandler     []byte
	writeErrs          []error
	gotRID             netip.Addr
	gotCaps            []Capability
	yieldInCallbacks   bool
	kinds              []bool
}

func newMonPlugin() *monPlugin { return &monPlugin{handlerNotifAt: -1} }

// overlap is monitored among the session callbacks (OnEstablished, OnClose, update handler): these must
// never run concurrently. GetCapabilities / OnOpenMessage belong to a connection, not to the session, and
// may legitimately run on the other connection's FSM goroutine at the same time.
func (m *monPlugin) enter(kind int) {
	m.events = append(m.events, pevent{kind, verifGID()})
	sess := kind == evOnEstablished || kind == evOnClose || kind == evHandler
	if sess {
		if m.active != 0 {
			m.overlap = true
		}
		m.active++
	}
	m.kinds = append(m.kinds, sess)
	if m.yieldInCallbacks {
		verifYield()
	}
}
func (m *monPlugin) leave() {
	k := m.kinds[len(m.kinds)-1]
	m.kinds = m.kinds[:len(m.kinds)-1]
	if k {
		m.active--
	}
}

func (m *monPlugin) GetCapabilities(PeerConfig) []Capability {
	m.enter(evGetCaps)
	m.nGetCaps++
	m.leave()
	return m.caps
}

func (m *monPlugin) OnOpenMessage(_ PeerConfig, rid netip.Addr, caps []Capability) *Notification {
	m.enter(evOnOpen)
	m.nOpen++
	m.gotRID, m.gotCaps = rid, caps
	m.leave()
	return m.openNotif
}

func (m *monPlugin) OnEstablished(_ PeerConfig, w UpdateMessageWriter) UpdateMessageHandler {
	m.enter(evOnEstablished)
	if m.estab {
		m.badOrder = true
	}
	m.nEstab++
	m.writer = w
	if m.writeInEstablished != nil {
		m.writeErrs = append(m.writeErrs, w.WriteUpdate(m.writeInEstablished))
	}
	m.leave()
	m.estab = true
	if m.nilHandler {
		return nil
	}
	return m.handle
}

func (m *monPlugin) handle(_ PeerConfig, u []byte) *Notification {
	m.enter(evHandler)
	if !m.estab {
		m.badOrder = true
	}
	m.updates = append(m.updates, u)
	m.updateGids = append(m.updateGids, verifGID())
	if m.writeInHandler != nil {
		m.writeErrs = append(m.writeErrs, m.writer.WriteUpdate(m.writeInHandler))
	}
	idx := len(m.updates) - 1
	m.leave()
	if idx == m.handlerNotifAt {
		return m.handlerNotif
	}
	return nil
}

func (m *monPlugin) OnClose(PeerConfig) {
	if !m.estab {
		m.badOrder = true
	}
	m.estab = false
	m.enter(evOnClose)
	m.nClose++
	m.leave()
}

// ---------- construction of peers / FSMs in given states ----------

type symCfg struct {
	localID, localAS, remoteAS uint32
	holdSec                    uint16
}

func symConfig() symCfg {
	c := symCfg{localID: verifU32("localID"), localAS: verifU32("localAS"), remoteAS: verifU32("remoteAS"), holdSec: verifU16("localHold")}
	verifAssume(verifAnd(c.localAS != 0, c.remoteAS != 0))
	verifAssume(verifOr(c.holdSec == 0, c.holdSec >= 3))
	return c
}

// concreteConfig: for harnesses whose subject does not depend on the configuration
func concreteConfig() symCfg {
	return symCfg{localID: 0x0a000001, localAS: 65000, remoteAS: 65001, holdSec: 90}
}

// mkPeer builds the peer through the public path (NewServer + AddPeer with options), so that harnesses see the
// option defaults and validation the library really applies and do not depend on the constructors' signatures;
// the peer object is then taken out of the (never served) server's registry.
func mkPeer(c symCfg, pl Plugin) *peer {
	id := c.localID
	s, err := NewServer(netip.AddrFrom4([4]byte{byte(id >> 24), byte(id >> 16), byte(id >> 8), byte(id)}))
	if err != nil {
		verifUnsupported("setup: NewServer refused an IPv4 router id")
		return nil
	}
	remote := netip.AddrFrom4([4]byte{192, 0, 2, 1})
	err = s.AddPeer(PeerConfig{RemoteAddress: remote, LocalAS: c.localAS, RemoteAS: c.remoteAS}, pl, WithHoldTime(c.holdSec))
	if err != nil {
		verifUnsupported("setup: AddPeer refused the harness configuration")
		return nil
	}
	return s.peers[remote.String()]
}

// fsmInOpenSent: an FSM as sendOpenAndSetHoldTimer leaves it (conn set, 4-minute hold timer, reader started).
func fsmInOpenSent(p *peer, conn net.Conn) *fsm {
	f := newFSM(p, verifDirOf(conn), conn)
	f.holdTimer = time.NewTimer(longHoldTime)
	f.startReading()
	return f
}

// fsmNegotiated: an FSM in the state the REAL openSent() leaves it in after accepting a valid
// OPEN with the given remote hold time and identifier (the OPEN is fed through the real reader;
// the KEEPALIVE reply and the OnOpenMessage record are cleared so harnesses start from a clean log).
func fsmNegotiated(p *peer, conn net.Conn, remoteHold uint16, remoteID uint32) *fsm {
	c := conn.(*symConn)
	body := mkOpenBody(p.config.RemoteAS, remoteHold, remoteID)
	hdr := mkFrame(verifMsgOpen, nil)
	n := 19 + len(body)
	hdr[16], hdr[17] = byte(n>>8), byte(n)
	pre := [][]byte{hdr, body}
	rest := c.chunks
	wasAvail := c.avail
	c.chunks = append(pre, rest...)
	c.avail = 2
	wasFinal := c.final
	c.final = false
	// the short reads are for the messages under test, not for the setup OPEN
	wasShort := c.shortReads
	c.shortReads = 0
	verifAssume(verifAnd(remoteID>>24 < 224, verifNot(verifAnd(p.config.LocalAS == p.config.RemoteAS, p.id == remoteID))))
	f := fsmInOpenSent(p, conn)
	to, err := f.openSent()
	if to != openConfirmState || err != nil {
		verifUnsupported("setup: the real openSent() did not accept the setup OPEN")
	}
	c.writes = nil
	if mp, ok := p.plugin.(*monPlugin); ok {
		mp.nOpen, mp.events = 0, nil
	}
	c.pos = 0
	c.shortReads = wasShort
	c.deliver(wasAvail+2, wasFinal)
	return f
}

// direction used for FSMs that harnesses construct directly (the state functions do not depend on it;
// the manager channels are not used by those harnesses)
func verifDirOf(c net.Conn) int { return in }
