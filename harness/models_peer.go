//go:build verif

package corebgp

import (
	"context"
	"errors"
	"net"
)

// ---------- dialer model ----------
//
// (*net.Dialer).DialContext is routed by the engine to verifDialHook. Each dial attempt
// consults the harness-provided script: succeed with a fresh symConn, fail at once,
// or stay pending until the context is cancelled (then fail — or, to model the real
// race between cancel and a completing connect, succeed).

type dialOutcome int

const (
	dialOK dialOutcome = iota
	dialRefused
	dialPendingThenFail
	dialPendingThenOK
)

type dialScript struct {
	outcomes []dialOutcome // per attempt; attempts beyond the script use last
	conns    []*symConn    // conns handed out (in order)
	mk       func(n int) *symConn
	attempts int
	nowAt    []int64
}

var verifDial *dialScript

// set by an environment that answers dials itself (the event-sequence harnesses)
var verifDialOverride func(ctx context.Context) (net.Conn, error)

var errDialRefused = errors.New("connect: connection refused")
var errDialCanceled = errors.New("dial: operation was canceled")

func verifDialHook(ctx context.Context, addr string) (net.Conn, error) {
	if verifDialOverride != nil {
		return verifDialOverride(ctx)
	}
	d := verifDial
	if d == nil {
		verifUnsupported("dial without a dial script")
		return nil, errDialRefused
	}
	k := d.attempts
	d.attempts++
	oc := dialRefused
	if len(d.outcomes) > 0 {
		if k < len(d.outcomes) {
			oc = d.outcomes[k]
		} else {
			oc = d.outcomes[len(d.outcomes)-1]
		}
	}
	verifYield()
	switch oc {
	case dialOK:
		c := d.mk(k)
		d.conns = append(d.conns, c)
		return c, nil
	case dialRefused:
		return nil, errDialRefused
	case dialPendingThenFail:
		<-ctx.Done()
		return nil, errDialCanceled
	default:
		<-ctx.Done()
		c := d.mk(k)
		d.conns = append(d.conns, c)
		return c, nil
	}
}

// staged connection: nothing has arrived yet; frames are appended and released by the harness
func newStagedConn(name string) *symConn {
	c := newSymConn(name, nil, 0)
	c.final = false
	c.avail = 0
	return c
}

// send makes one more well-formed message arrive on c.
func (c *symConn) send(typ uint8, body []byte) {
	c.chunks = append(c.chunks, mkFrame(typ, nil))
	h := c.chunks[len(c.chunks)-1]
	n := 19 + len(body)
	h[16], h[17] = byte(n>>8), byte(n)
	if len(body) > 0 {
		c.chunks = append(c.chunks, body)
	}
	c.deliver(len(c.chunks), false)
}

// remote closes (FIN) or resets after everything sent so far
func (c *symConn) remoteClose(mode int) {
	c.endMode = mode
	c.deliver(len(c.chunks), true)
}

// wire-log helpers
func (c *symConn) lastIsCease() bool {
	if len(c.writes) == 0 {
		return false
	}
	w := c.writes[len(c.writes)-1]
	return verifAnd(len(w) >= 21, verifAnd(verifAt(w, 18) == verifMsgNotification, verifAt(w, 19) == NOTIF_CODE_CEASE))
}

// ceaseSent: a Cease NOTIFICATION was written, and nothing but UPDATEs of concurrent WriteUpdate callers after it
func (c *symConn) ceaseSent() bool {
	seen := false
	for _, w := range c.writes {
		isCease := len(w) >= 21 && verifAt(w, 18) == verifMsgNotification && verifAt(w, 19) == NOTIF_CODE_CEASE
		if isCease {
			seen = true
		} else if seen && verifAt(w, 18) != verifMsgUpdate {
			return false
		}
	}
	return seen
}

func (c *symConn) wroteOpenFirst() bool {
	return len(c.writes) >= 1 && verifAt(c.writes[0], 18) == verifMsgOpen
}

// ---------- listener model ----------

type symListener struct {
	ch       chan net.Conn
	closed   chan struct{}
	isClosed bool
	accepts  int
}

func newSymListener() *symListener {
	return &symListener{ch: make(chan net.Conn), closed: make(chan struct{})}
}

func (l *symListener) Accept() (net.Conn, error) {
	select {
	case c := <-l.ch:
		l.accepts++
		return c, nil
	case <-l.closed:
		return nil, errSymClosed
	}
}

func (l *symListener) Close() error {
	if !l.isClosed {
		l.isClosed = true
		close(l.closed)
	}
	return nil
}

func (l *symListener) Addr() net.Addr { return symAddr{"0.0.0.0:179"} }
