//go:build verif

package corebgp

// C02 (FSM half) — what OpenSent does with an OPEN: KEEPALIVE + OnOpenMessage on accept,
// a single NOTIFICATION + close on reject, plugin notification verbatim.

func Verif_C02_opensent_reaction() {
	verifEngineOnly()
	verifNote("OpenSent receives one OPEN frame whose body is symbolic (length 0..28 quick / 0..40 thorough, at most 1 parameter x 1 capability: two capabilities through the FSM path did not leave enough margin in the thorough budget; the decode/validate half covers them) through the real reader; the accept/reject verdict is the one of messageFromBytes+validate (decided against the RFC reference in Verif_C02_open_*); both connection directions (inbound FSM created with a conn / outbound) behave identically from OpenSent on; plugin returns nil or a Notification with symbolic code/subcode and 0..4 data bytes")
	verifLoopBound(4)
	cfg := symConfig()
	n, C := 28, 1
	if verifTier() >= 1 {
		n, C = 40, 1
	}
	body := verifBuf("open", 0, n)
	info := c02Parse(body, cfg.remoteAS, 1, C)
	if !info.bounded {
		return
	}
	conn := newSymConn("c", mkFrame(verifMsgOpen, body), 0)
	pl := newMonPlugin()
	pluginRejects := verifChoose("plugin-rejects", 2) == 1
	pdata := verifBuf("pdata", 0, 4)
	if pluginRejects {
		pl.openNotif = &Notification{Code: verifU8("pcode"), Subcode: verifU8("psub"), Data: pdata}
	}
	p := mkPeer(cfg, pl)
	f := fsmInOpenSent(p, conn)
	to, err := f.openSent()
	verifQuiesce()
	// verdict of the pure functions on the same bytes
	var want *Notification
	m, derr := messageFromBytes(body, verifMsgOpen)
	if derr != nil {
		want, _ = c02Notif(derr)
	} else if verr := m.(*openMessage).validate(cfg.localID, cfg.localAS, cfg.remoteAS); verr != nil {
		want, _ = c02Notif(verr)
	}
	if want != nil {
		verifAssert("reject-single-notification", len(conn.writes) == 1)
		if len(conn.writes) == 1 {
			w := conn.writes[0]
			verifAssert("reject-notification-matches-fault", isNotification(w, want.Code, want.Subcode, len(want.Data)))
			verifAssume(len(w) >= 21)
			verifAssertBytesEq("reject-notification-data", w[21:], want.Data)
		}
		verifAssert("reject-closes-connection", conn.closed)
		verifAssert("reject-no-onopenmessage", pl.nOpen == 0)
		verifAssert("reject-not-established", to == idleState)
		n, out := c02Notif(err)
		verifAssert("reject-error-is-sent-notification", n != nil && out)
		verifCover("open-rejected")
		return
	}
	verifAssert("onopenmessage-exactly-once", pl.nOpen == 1)
	id := c18be32(body, 5)
	a4 := pl.gotRID.As4()
	verifAssert("onopenmessage-identifier", uint32(a4[0])<<24|uint32(a4[1])<<16|uint32(a4[2])<<8|uint32(a4[3]) == id)
	verifAssert("onopenmessage-capability-count", len(pl.gotCaps) == len(info.caps))
	for i := 0; i < len(pl.gotCaps) && i < len(info.caps); i++ {
		verifAssert("onopenmessage-capability-code", pl.gotCaps[i].Code == info.caps[i].code)
		k := verifInt("capk")
		in := verifAnd(k >= 0, k < info.caps[i].n)
		verifAssert("onopenmessage-capability-length", len(pl.gotCaps[i].Value) == info.caps[i].n)
		verifAssert("onopenmessage-capability-bytes", verifImplies(in, verifAt(pl.gotCaps[i].Value, k) == verifAt(body, info.caps[i].off+k)))
	}
	if pluginRejects {
		verifAssert("plugin-notification-single-write", len(conn.writes) == 1)
		if len(conn.writes) == 1 {
			w := conn.writes[0]
			verifAssert("plugin-notification-verbatim", isNotification(w, pl.openNotif.Code, pl.openNotif.Subcode, len(pdata)))
			verifAssume(len(w) >= 21)
			verifAssertBytesEq("plugin-notification-data", w[21:], pdata)
		}
		verifAssert("plugin-reject-closes", conn.closed)
		verifAssert("plugin-reject-not-established", to == idleState)
		verifCover("plugin-rejected")
		return
	}
	verifAssert("accept-replies-one-keepalive", len(conn.writes) == 1 && isKeepalive(conn.writes[0]))
	verifAssert("accept-goes-openconfirm", to == openConfirmState && err == nil)
	verifAssert("accept-keeps-connection", !conn.closed)
	verifAssert("accept-remembers-remote-id", f.remoteID == id)
	verifCover("open-accepted")
}

// the capabilities handed to OnOpenMessage stay byte-exact whatever the remote sends behind its OPEN
// (the reader runs ahead of the FSM: a receive buffer shared between messages would show here)
func Verif_C02_open_then_pipelined_message() {
	verifEngineOnly()
	verifNote("OpenSent receives a valid OPEN carrying the 4-octet-AS capability and a second capability (symbolic code, 4 symbolic value bytes), immediately followed on the stream by one more message (UPDATE or NOTIFICATION, symbolic body of 2..32 bytes) which the reader goroutine reads while the FSM is still handling the OPEN (OnOpenMessage yields); at most 1 delay; the capabilities recorded by OnOpenMessage are compared with the sent bytes after everything has quiesced")
	verifDelayBound(1)
	cfg := concreteConfig()
	code := verifU8("capcode")
	verifAssume(code != CAP_FOUR_OCTET_AS)
	val := verifBuf("capval", 4, 4)
	as := cfg.remoteAS
	body := []byte{4, byte(as >> 8), byte(as), 0, 90, 10, 0, 0, 2,
		16, 2, 6, CAP_FOUR_OCTET_AS, 4, byte(as >> 24), byte(as >> 16), byte(as >> 8), byte(as),
		2, 6, code, 4, val[0], val[1], val[2], val[3]}
	conn := newSymConn("c", nil, 0)
	conn.addFrame(verifMsgOpen, body)
	next := uint8(verifMsgUpdate)
	if verifChoose("next-is-notification", 2) == 1 {
		next = verifMsgNotification
	}
	conn.addFrame(next, verifBuf("nextbody", 2, 32))
	pl := newMonPlugin()
	pl.yieldInCallbacks = true
	p := mkPeer(cfg, pl)
	f := fsmInOpenSent(p, conn)
	to, err := f.openSent()
	verifQuiesce()
	verifAssert("valid-open-accepted", to == openConfirmState && err == nil)
	verifAssert("onopenmessage-exactly-once", pl.nOpen == 1)
	verifAssert("two-capabilities", len(pl.gotCaps) == 2)
	if len(pl.gotCaps) == 2 {
		c0, c1 := pl.gotCaps[0], pl.gotCaps[1]
		verifAssert("first-capability-intact", c0.Code == CAP_FOUR_OCTET_AS && len(c0.Value) == 4 &&
			verifAt(c0.Value, 0) == byte(as>>24) && verifAt(c0.Value, 1) == byte(as>>16) && verifAt(c0.Value, 2) == byte(as>>8) && verifAt(c0.Value, 3) == byte(as))
		verifAssert("second-capability-code-intact", c1.Code == code)
		verifAssertBytesEq("second-capability-bytes-intact", c1.Value, val)
	}
	verifCover("pipelined")
}

// every connection starts clean: nothing the remote sent on an earlier connection of the same (reused,
// outbound) FSM object is ever taken for input of the next connection
func Verif_C02_second_connection_starts_clean() {
	verifEngineOnly()
	verifNote("real peer, outbound: the first connection is brought to OpenConfirm or Established (symbolic), then the remote sends a Cease NOTIFICATION with a further OPEN (another identifier) pipelined right behind it, and FIN, all at once, while the callbacks yield (the reader runs ahead of the FSM); at most 2 delays; the session ends without damping and the same FSM re-dials after its idle-hold timer: before the remote has sent anything on the second connection corebgp has written only its OPEN and made no further OnOpenMessage call; the remote's OPEN (third identifier) is then accepted with exactly that identifier, and the session establishes")
	e := newPenv(false)
	e.dial.outcomes = []dialOutcome{dialOK, dialOK, dialPendingThenFail}
	e.pl.yieldInCallbacks = true
	id2, id3 := verifU32("id2"), verifU32("id3")
	for _, id := range []uint32{id2, id3} {
		verifAssume(verifAnd(id>>24 < 224, verifNot(verifAnd(e.cfg.localAS == e.cfg.remoteAS, e.cfg.localID == id))))
	}
	verifAssume(verifAnd(id2 != e.remoteID, verifAnd(id3 != e.remoteID, id3 != id2)))
	e.p.start()
	state := stOpenConfirm + verifChoose("first-connection-state", 2)
	c1 := e.bring(out, state)
	if c1 == nil {
		return
	}
	estab := e.pl.nEstab
	verifDelayBound(2)
	c1.chunks = append(c1.chunks, mkFrame(verifMsgNotification, []byte{NOTIF_CODE_CEASE, 0}), mkFrame(verifMsgOpen, mkOpenBody(e.cfg.remoteAS, 90, id2)))
	c1.endMode = 1
	c1.deliver(len(c1.chunks), true)
	verifQuiesce()
	verifDelayBound(0)
	verifAssert("first-connection-over", c1.closed && e.pl.nClose == estab)
	verifAssert("first-open-reported-once", e.pl.nOpen == 1)
	verifAssert("cease-does-not-damp", !e.p.inHoldDown)
	f := e.p.fsms[out]
	if f == nil || !verifFireTimer(f.idleHoldTimer) {
		verifAssert("outbound-fsm-waits-for-idle-hold", false)
		return
	}
	verifQuiesce()
	c2 := e.conns[out]
	verifAssert("second-connection", c2 != nil && c2 != c1)
	if c2 == nil || c2 == c1 {
		return
	}
	verifAssert("only-our-open-before-the-remote-speaks", len(c2.writes) == 1 && c2.wroteOpenFirst() && !c2.closed)
	verifAssert("no-onopenmessage-before-the-remote-speaks", e.pl.nOpen == 1)
	c2.send(verifMsgOpen, mkOpenBody(e.cfg.remoteAS, 90, id3))
	verifQuiesce()
	verifAssert("second-connection-open-accepted", e.pl.nOpen == 2 && len(c2.writes) == 2 && isKeepalive(c2.writes[1]) && !c2.closed)
	a4 := e.pl.gotRID.As4()
	verifAssert("second-connection-identifier-is-the-one-sent-on-it", uint32(a4[0])<<24|uint32(a4[1])<<16|uint32(a4[2])<<8|uint32(a4[3]) == id3)
	c2.send(verifMsgKeepalive, nil)
	verifQuiesce()
	verifAssert("second-connection-establishes", e.pl.nEstab == estab+1 && e.p.fsmState[out] == establishedState)
	verifCover("second-connection-clean")
	e.p.stop()
}

// An acceptable OPEN is accepted however TCP segments it: the first 3 Read calls return a symbolic
// byte count (every split point inside the header and inside the body).
func Verif_C02_open_in_segments() {
	verifEngineOnly()
	verifNote("OpenSent receives a well-formed acceptable OPEN (symbolic AS / identifier, 4-octet-AS capability) whose bytes arrive in pieces: the first 3 Read calls return a symbolic count 1..available (all segmentations of header and body within 3 short reads); it must be accepted exactly as when it arrives whole")
	cfg := symConfig()
	verifAssume(cfg.holdSec >= 3)
	remoteID := verifU32("remoteID")
	verifAssume(verifAnd(remoteID>>24 < 224, verifNot(verifAnd(cfg.localAS == cfg.remoteAS, cfg.localID == remoteID))))
	verifAssume(remoteID != 0)
	body := mkOpenBody(cfg.remoteAS, 90, remoteID)
	conn := newSymConn("c", mkFrame(verifMsgOpen, body), 0)
	conn.shortReads = 3
	pl := newMonPlugin()
	p := mkPeer(cfg, pl)
	f := fsmInOpenSent(p, conn)
	to, err := f.openSent()
	verifQuiesce()
	verifAssert("segmented-open-accepted", verifAnd(to == openConfirmState, err == nil))
	verifAssert("segmented-open-onopenmessage-once", pl.nOpen == 1)
	a4 := pl.gotRID.As4()
	verifAssert("segmented-open-identifier", uint32(a4[0])<<24|uint32(a4[1])<<16|uint32(a4[2])<<8|uint32(a4[3]) == remoteID)
	verifAssert("segmented-open-one-keepalive", len(conn.writes) == 1 && isKeepalive(conn.writes[0]))
	verifAssert("segmented-open-keeps-connection", !conn.closed)
	verifCover("segmented-open-accepted")
}
