//go:build verif

package corebgp

import "time"

// C12 — protocol errors damp the peer; Cease and transport faults do not.

// one step of the hold-down history function, from an arbitrary valid pre-state
func Verif_C12_Arith_startup_delay_step() {
	verifEngineOnly()
	verifNote("one call of updateStartupDelay from every pre-state with startupDelay in {0} u [60 s, 300 s] (the invariant re-asserted after the step), lastProtoError nil or any instant <= now, now symbolic: covers protocol-error histories of any length by induction")
	cfg := symConfig()
	p := mkPeer(cfg, newMonPlugin())
	d := verifU64("delay")
	verifAssume(verifOr(d == 0, verifAnd(d >= uint64(errorDelayMinTime), d <= uint64(errorDelayMaxTime))))
	p.startupDelay = time.Duration(d)
	now := verifU64("now")
	last := verifU64("last")
	verifAssume(verifAnd(now < 1<<60, last <= now))
	hasLast := verifChoose("has-last", 2) == 1
	if hasLast {
		verifSetNow(int64(last))
		t := time.Now()
		p.lastProtoError = &t
	} else {
		verifAssume(d == 0)
	}
	verifSetNow(int64(now))
	p.updateStartupDelay()
	gapLong := verifAnd(hasLast, now-last >= uint64(errorAmnesiaTime))
	d0 := verifIteU64(gapLong, 0, d)
	dbl := verifIteU64(2*d0 > uint64(errorDelayMaxTime), uint64(errorDelayMaxTime), 2*d0)
	want := verifIteU64(d0 == 0, uint64(errorDelayMinTime), dbl)
	got := uint64(p.startupDelay)
	verifAssert("delay-follows-history-function", got == want)
	verifAssert("invariant-60-to-300", verifAnd(got >= uint64(errorDelayMinTime), got <= uint64(errorDelayMaxTime)))
	verifAssert("timer-armed-for-the-delay", verifTimerArmed(p.startupDelayTimer) && uint64(verifTimerDur(p.startupDelayTimer)) == got)
	verifAssert("last-error-is-now", p.lastProtoError != nil && time.Since(*p.lastProtoError) == 0)
	verifCoverIf("first-error-60s", verifAnd(!hasLast, got == uint64(errorDelayMinTime)))
	verifCoverIf("doubling", verifAnd(d == uint64(errorDelayMinTime), got == 2*uint64(errorDelayMinTime)))
	verifCoverIf("capped-300s", verifAnd(d == uint64(errorDelayMaxTime), got == uint64(errorDelayMaxTime)))
	verifCoverIf("amnesia-reset", verifAnd(gapLong, d > uint64(errorDelayMinTime)))
}

const (
	c12SentFSMError = iota // remote sends a message that is unexpected in the state -> corebgp sends NOTIFICATION code 5
	c12RecvNotif           // remote sends NOTIFICATION with symbolic code
	c12TCPClose            // remote closes / resets
	c12HoldExpiry          // hold timer expires -> corebgp sends NOTIFICATION code 4
	c12BadHeader           // remote sends a corrupted marker -> corebgp sends NOTIFICATION code 1
	c12NumKinds
)

func Verif_C12_damping_scenarios() {
	verifNote("real peer (manager + FSM + reader), one connection direction (out: active peer / in: passive peer) brought to OpenSent, OpenConfirm or Established, then one fault: unexpected message (FSM error sent), corrupted header (header error sent), NOTIFICATION received with symbolic code 0..255 (incl. Cease), TCP FIN/RST, hold-timer expiry; afterwards an inbound connection is offered and the hold-down timer is fired; base schedule")
	dir := verifChoose("direction", 2)
	state := verifChoose("state", 3)
	kind := verifChoose("fault", c12NumKinds)
	e := newPenv(dir == in)
	if dir == out {
		e.p.start()
	} else {
		e.p.start()
	}
	c := e.bring(dir, state)
	dialsBefore := e.dial.attempts
	var code uint8
	protocol := true
	switch kind {
	case c12SentFSMError:
		// UPDATE is unexpected in OpenSent/OpenConfirm; OPEN is unexpected in Established
		if state == stEstablished {
			c.send(verifMsgOpen, e.openBody())
		} else {
			c.send(verifMsgUpdate, []byte{0, 0, 0, 0})
		}
		code = NOTIF_CODE_FSM_ERR
	case c12BadHeader:
		bad := mkFrame(verifMsgKeepalive, nil)
		bad[3] = 0
		c.chunks = append(c.chunks, bad)
		c.deliver(len(c.chunks), false)
		code = NOTIF_CODE_MESSAGE_HEADER_ERR
	case c12RecvNotif:
		code = verifU8("ncode")
		c.send(verifMsgNotification, []byte{code, verifU8("nsub")})
	case c12TCPClose:
		c.remoteClose(1 + verifChoose("fin-or-rst", 2))
		protocol = false
	case c12HoldExpiry:
		f := e.p.fsms[dir]
		if f == nil || f.holdTimer == nil || !verifFireTimer(f.holdTimer) {
			verifUnsupported("hold timer not armed in this state")
		}
		code = NOTIF_CODE_HOLD_TIMER_EXPIRED
	}
	verifQuiesce()
	damp := protocol && verifChooseBool(code != NOTIF_CODE_CEASE)
	verifAssert("faulted-connection-closed", c.closed)
	if damp {
		verifAssert("hold-down-started", e.p.inHoldDown)
		verifAssert("first-hold-down-is-60s", e.p.startupDelay == errorDelayMinTime && verifTimerArmed(e.p.startupDelayTimer))
		verifAssert("both-fsms-dropped", e.p.fsms[out] == nil && e.p.fsms[in] == nil)
		verifAssert("no-dial-during-hold-down", e.dial.attempts == dialsBefore)
		// inbound connections are refused without a byte
		c2 := newStagedConn("in2")
		e.p.incomingConnection(c2)
		verifQuiesce()
		verifAssert("inbound-refused-during-hold-down", c2.closed && len(c2.writes) == 0 && e.p.fsms[in] == nil)
		verifAssert("still-no-dial", e.dial.attempts == dialsBefore)
		// the period ends: the peer is retried
		verifAssert("hold-down-timer-fires", verifFireTimer(e.p.startupDelayTimer))
		verifQuiesce()
		verifAssert("hold-down-over", !e.p.inHoldDown)
		if dir == out {
			verifAssert("active-peer-dials-again", e.dial.attempts == dialsBefore+1)
		} else {
			verifAssert("passive-peer-does-not-dial", e.dial.attempts == 0)
			c3 := e.inject()
			verifAssert("passive-peer-accepts-inbound-again", !c3.closed && c3.wroteOpenFirst())
		}
		verifCover("damped")
	} else {
		verifAssert("no-hold-down", !e.p.inHoldDown)
		verifAssert("delay-untouched", e.p.startupDelay == 0 && e.p.lastProtoError == nil && !verifTimerArmed(e.p.startupDelayTimer))
		if dir == in {
			c3 := e.inject()
			verifAssert("inbound-accepted-after-non-damping-fault", !c3.closed && c3.wroteOpenFirst())
		}
		verifCover("not-damped")
	}
	e.p.stop()
	verifAssert("stop-does-not-damp", (e.p.startupDelay == 0) == !damp)
}

// A protocol error on one connection racing with the other connection's progress: the error must
// still damp the peer (it may not get lost because the erring FSM is stopped while offering it).
func Verif_C12_error_races_other_connection() {
	verifNote("both connections up: the outbound one in OpenConfirm, the inbound one in OpenSent; the inbound connection receives an unexpected message (FSM error NOTIFICATION is sent) at the same time as the outbound one receives its KEEPALIVE (asks for Established): all orders in which the manager can take the two offers (select arms ready together) + 1 delay; afterwards the peer must be held down")
	e := newPenv(false)
	e.p.start()
	co := e.bring(out, stOpenConfirm)
	ci := e.bring(in, stOpenSent)
	verifDelayBound(1)
	ci.send(verifMsgUpdate, []byte{0, 0, 0, 0}) // unexpected in OpenSent -> NOTIFICATION(5,1) sent
	co.send(verifMsgKeepalive, nil)
	verifQuiesce()
	sentProtocolError := len(ci.writes) >= 2 && verifAt(ci.writes[len(ci.writes)-1], 18) == verifMsgNotification && verifAt(ci.writes[len(ci.writes)-1], 19) == NOTIF_CODE_FSM_ERR
	if sentProtocolError {
		verifAssertKnown("protocol-error-sent-damps-the-peer", e.p.inHoldDown, "C12-error-lost-when-fsm-stopped-while-offering-it", !e.p.inHoldDown && e.pl.nEstab == 1)
		verifCover("error-raced")
	}
	verifCoverIf("race-error-first", e.p.inHoldDown)
	e.p.stop()
}

// the hold-down drops BOTH connections, also one that has only just been accepted when the error is handled
func Verif_C12_error_while_inbound_just_accepted() {
	verifNote("outbound connection in OpenSent / OpenConfirm (symbolic); an inbound connection is handed to the manager and, without waiting, the outbound one receives an unexpected message (FSM error NOTIFICATION is sent): all schedules with at most 2 delays (so the error is also handled before the new inbound FSM's first transition); afterwards the peer is held down, both connections are closed, no FSM is left and no session is or becomes Established; a further inbound connection is refused")
	e := newPenv(false)
	e.p.start()
	st := stOpenSent + verifChoose("outbound-state", 2)
	co := e.bring(out, st)
	if co == nil {
		return
	}
	verifDelayBound(2)
	ci := newStagedConn("in")
	e.p.incomingConnection(ci)
	if st == stOpenSent {
		co.send(verifMsgKeepalive, nil) // unexpected in OpenSent
	} else {
		co.send(verifMsgUpdate, []byte{0, 0, 0, 0}) // unexpected in OpenConfirm
	}
	verifQuiesce()
	verifDelayBound(0)
	sent := len(co.writes) >= 2 && verifAt(co.writes[len(co.writes)-1], 18) == verifMsgNotification && verifAt(co.writes[len(co.writes)-1], 19) == NOTIF_CODE_FSM_ERR
	verifAssert("fsm-error-notification-sent", sent && co.closed)
	verifAssert("protocol-error-damps-the-peer", e.p.inHoldDown)
	verifAssert("hold-down-drops-the-just-accepted-connection-too", ci.closed)
	verifAssert("hold-down-leaves-no-fsm", e.p.fsms[in] == nil && e.p.fsms[out] == nil)
	// even if the remote now completes the handshake on the inbound connection nothing may establish
	ci.send(verifMsgOpen, e.openBody())
	ci.send(verifMsgKeepalive, nil)
	verifQuiesce()
	verifAssert("nothing-establishes-during-the-hold-down", e.pl.nEstab == 0)
	c3 := e.inject()
	verifAssert("inbound-refused-during-hold-down", c3.closed && len(c3.writes) == 0)
	verifCover("error-with-just-accepted-inbound")
	e.p.stop()
}
