//go:build verif

package corebgp

// C15 — OPEN / NOTIFICATION / capability codecs round-trip and are strict.

func c15HeaderOK(id string, enc []byte, typ uint8, bodyLen int) {
	verifAssert(id+"-frame-length", len(enc) == 19+bodyLen)
	k := verifInt("mk")
	verifAssert(id+"-marker", verifImplies(verifAnd(k >= 0, k < 16), verifAt(enc, k) == 0xFF))
	verifAssert(id+"-length-field", int(verifAt(enc, 16))<<8|int(verifAt(enc, 17)) == 19+bodyLen)
	verifAssert(id+"-type", verifAt(enc, 18) == typ)
}

// (a) NOTIFICATION value -> bytes -> value, all data lengths that fit a message
func Verif_C15_notification_value_roundtrip() {
	data := verifBuf("data", 0, 4075)
	x := &Notification{Code: verifU8("code"), Subcode: verifU8("subcode"), Data: data}
	enc, err := x.encode()
	verifAssert("encode-ok", err == nil)
	c15HeaderOK("notif", enc, verifMsgNotification, 2+len(data))
	verifAssume(len(enc) >= 19)
	var y Notification
	err = y.decode(enc[19:])
	verifAssert("decode-ok", err == nil)
	verifAssert("code", y.Code == x.Code)
	verifAssert("subcode", y.Subcode == x.Subcode)
	verifAssertBytesEq("data", y.Data, data)
	verifCoverIf("one-byte-data", len(data) == 1)
	verifCoverIf("no-data", len(data) == 0)
	verifCoverIf("max-data", len(data) == 4075)
}

// (b) NOTIFICATION bytes -> value -> bytes and strictness
func Verif_C15_notification_bytes_roundtrip() {
	b := verifBuf("body", 0, 4077)
	var n Notification
	err := n.decode(b)
	m, merr := messageFromBytes(b, verifMsgNotification)
	verifAssert("accept-iff-fixed-fields-present", (err == nil) == (len(b) >= 2))
	verifAssert("messageFromBytes-agrees", (merr == nil) == (err == nil))
	if err != nil {
		verifAssert("error-means-no-message", m == nil)
		verifCover("notif-rejected")
		return
	}
	enc, _ := n.encode()
	verifAssume(len(enc) >= 19)
	verifAssertBytesEq("reencode", enc[19:], b)
	verifCover("notif-accepted")
}

// reference well-formedness of an OPEN body (RFC 4271 §4.2, RFC 5492 §4), forking walk.
// ok: well-formed; bounded: within P parameters x C capabilities each.
func c15OpenWellFormed(b []byte, P, C int) (ok, bounded bool) {
	L := len(b)
	if L < 10 {
		return false, true
	}
	if int(verifAt(b, 9)) != L-10 {
		return false, true
	}
	pos := 10
	if pos == L {
		return false, true // empty parameter list: nothing to decode (rejected; see C02)
	}
	for p := 0; ; p++ {
		if pos == L {
			return true, true
		}
		if p == P {
			return false, false
		}
		if pos+2 > L {
			return false, true
		}
		ptype := verifAt(b, pos)
		plen := int(verifAt(b, pos+1))
		if pos+2+plen > L {
			return false, true
		}
		if ptype != 2 {
			return false, true
		}
		cpos := pos + 2
		cend := cpos + plen
		if cpos == cend {
			return false, true // a capabilities parameter holds at least one capability
		}
		for c := 0; ; c++ {
			if cpos == cend {
				break
			}
			if c == C {
				return false, false
			}
			if cpos+2 > cend {
				return false, true
			}
			clen := int(verifAt(b, cpos+1))
			if cpos+2+clen > cend {
				return false, true
			}
			cpos += 2 + clen
		}
		pos = cend
	}
}

func c15OpenBytes(tag string, maxLen, P, C int) {
	verifLoopBound(max(P, C) + 2)
	b := verifBuf("open", 0, maxLen)
	ok, bounded := c15OpenWellFormed(b, P, C)
	if !bounded {
		return
	}
	o := &openMessage{}
	err := o.decode(b)
	m, merr := messageFromBytes(b, verifMsgOpen)
	verifAssert("messageFromBytes-agrees", (merr == nil) == (err == nil))
	if err != nil {
		verifAssert("reject-only-malformed", !ok)
		verifAssert("error-means-no-message", m == nil)
		verifCover(tag + "open-rejected")
		return
	}
	verifAssert("accept-only-wellformed", ok)
	enc, eerr := o.encode()
	verifAssert("reencode-ok", eerr == nil)
	if eerr != nil {
		return
	}
	verifAssume(len(enc) >= 19)
	verifAssertBytesEq("reencode", enc[19:], b)
	verifCover(tag + "open-accepted")
}

func Verif_C15_open_bytes_structured() {
	P, C := 1, 2
	if verifTier() >= 1 {
		P, C = 2, 2
	}
	verifNote("OPEN bytes->value->bytes: body length symbolic 0..4077, at most P optional parameters x C capabilities each (1x2 quick / 2x2 thorough), all length octets and contents symbolic")
	verifWant("st-open-rejected")
	verifWant("st-open-accepted")
	c15OpenBytes("st-", 4077, P, C)
}

func Verif_C15_open_bytes_small() {
	n := 18
	if verifTier() >= 1 {
		n = 22
	}
	verifNote("OPEN bytes->value->bytes: every body of length <= 18 (quick) / 22 (thorough) — two capability parameters fit from 18 bytes on")
	verifWant("sm-open-rejected")
	verifWant("sm-open-accepted")
	c15OpenBytes("sm-", n, 3, 3)
}

// OPEN value -> bytes -> value for representable OPENs
func Verif_C15_open_value_roundtrip() {
	verifLoopBound(4)
	verifNote("OPEN value->bytes->value: one capability parameter with 1..2 capabilities (both tiers) and, thorough only, two parameters with one capability each (two x two left one query undecided within 60 s on a second run and is therefore not registered); value lengths symbolic 0..255, assumed representable (every parameter and the parameter block <= 255 bytes)")
	np := 1
	if verifTier() >= 1 {
		np = 1 + verifChoose("params", 2)
	}
	o := &openMessage{version: verifU8("ver"), asn: verifU16("asn"), holdTime: verifU16("hold"), bgpID: verifU32("id")}
	total := 0
	var vals [][]byte
	for p := 0; p < np; p++ {
		nc := 1
		if np == 1 {
			nc = 1 + verifChoose("caps", 2)
		}
		cp := &capabilityOptionalParam{}
		plen := 0
		for c := 0; c < nc; c++ {
			v := verifBuf("capval", 0, 255)
			vals = append(vals, v)
			cp.capabilities = append(cp.capabilities, Capability{Code: verifU8("capcode"), Value: v})
			plen += 2 + len(v)
		}
		verifAssume(plen <= 255)
		total += 2 + plen
		o.optionalParams = append(o.optionalParams, cp)
	}
	verifAssume(total <= 255)
	enc, err := o.encode()
	verifAssert("encode-ok", err == nil)
	c15HeaderOK("open", enc, verifMsgOpen, 10+total)
	verifAssume(len(enc) >= 19)
	d := &openMessage{}
	err = d.decode(enc[19:])
	verifAssert("decode-ok", err == nil)
	if err != nil {
		return
	}
	verifAssert("version", d.version == o.version)
	verifAssert("asn", d.asn == o.asn)
	verifAssert("hold", d.holdTime == o.holdTime)
	verifAssert("id", d.bgpID == o.bgpID)
	verifAssert("param-count", len(d.optionalParams) == len(o.optionalParams))
	if len(d.optionalParams) != len(o.optionalParams) {
		return
	}
	vi := 0
	for p := range o.optionalParams {
		want := o.optionalParams[p].(*capabilityOptionalParam)
		got, isCap := d.optionalParams[p].(*capabilityOptionalParam)
		verifAssert("param-kind", isCap)
		if !isCap {
			return
		}
		verifAssert("cap-count", len(got.capabilities) == len(want.capabilities))
		if len(got.capabilities) != len(want.capabilities) {
			return
		}
		for c := range want.capabilities {
			verifAssert("cap-code", got.capabilities[c].Code == want.capabilities[c].Code)
			verifAssertBytesEq("cap-value", got.capabilities[c].Value, vals[vi])
			vi++
		}
	}
	verifCover("open-value-roundtrip")
}

// (d) capability helpers
func Verif_C15_addpath_tuple() {
	t := AddPathTuple{AFI: verifU16("afi"), SAFI: verifU8("safi"), Tx: verifBool("tx"), Rx: verifBool("rx")}
	enc := t.Encode()
	verifAssert("tuple-len", len(enc) == 4)
	verifAssume(len(enc) == 4)
	verifAssert("tuple-afi", uint16(enc[0])<<8|uint16(enc[1]) == t.AFI)
	verifAssert("tuple-safi", enc[2] == t.SAFI)
	want := verifIteU8(verifAnd(t.Tx, t.Rx), 3, verifIteU8(t.Tx, 2, verifIteU8(t.Rx, 1, 0)))
	verifAssert("tuple-send-receive", enc[3] == want)
	var d AddPathTuple
	err := d.Decode(enc)
	if err == nil {
		verifAssert("roundtrip-only-when-tx-or-rx", verifOr(t.Tx, t.Rx))
		verifAssert("roundtrip-afi", d.AFI == t.AFI)
		verifAssert("roundtrip-safi", d.SAFI == t.SAFI)
		verifAssert("roundtrip-tx", d.Tx == t.Tx)
		verifAssert("roundtrip-rx", d.Rx == t.Rx)
		verifCover("tuple-roundtrip")
	} else {
		verifAssert("rejected-only-when-neither", verifAnd(!t.Tx, !t.Rx))
		verifCover("tuple-neither")
	}
}

func Verif_C15_addpath_tuple_decode() {
	b := verifBuf("tuple", 0, 8)
	var d AddPathTuple
	err := d.Decode(b)
	sr := verifAt(b, 3)
	ok := verifAnd(len(b) >= 4, verifAnd(sr >= 1, sr <= 3))
	verifAssert("accept-iff-send-receive-1-3", (err == nil) == ok)
	if err == nil {
		verifAssert("afi", d.AFI == uint16(verifAt(b, 0))<<8|uint16(verifAt(b, 1)))
		verifAssert("safi", d.SAFI == verifAt(b, 2))
		verifAssert("tx", d.Tx == (sr&2 != 0))
		verifAssert("rx", d.Rx == (sr&1 != 0))
		verifCover("tuple-decoded")
	} else {
		verifCover("tuple-rejected")
	}
}

func Verif_C15_addpath_tuples_list() {
	N := 3
	if verifTier() >= 1 {
		N = 6
	}
	verifLoopBound(N + 1)
	verifNote("DecodeAddPathTuples / NewAddPathCapability: lists of at most N tuples (3 quick / 6 thorough)")
	b := verifBuf("tuples", 0, 4*N)
	ts, err := DecodeAddPathTuples(b)
	// reference
	ok := verifAnd(len(b) > 0, len(b)%4 == 0)
	for i := 0; i < N; i++ {
		sr := verifAt(b, 4*i+3)
		ok = verifAnd(ok, verifOr(4*i >= len(b), verifAnd(sr >= 1, sr <= 3)))
	}
	verifAssert("list-accept-iff-all-tuples-valid", (err == nil) == ok)
	if err != nil {
		verifAssert("list-error-no-partial-result", ts == nil)
		verifCover("list-rejected")
		return
	}
	verifAssert("list-count", len(ts)*4 == len(b))
	for i := range ts {
		verifAssert("list-afi", ts[i].AFI == uint16(verifAt(b, 4*i))<<8|uint16(verifAt(b, 4*i+1)))
		verifAssert("list-safi", ts[i].SAFI == verifAt(b, 4*i+2))
		verifAssert("list-tx", ts[i].Tx == (verifAt(b, 4*i+3)&2 != 0))
		verifAssert("list-rx", ts[i].Rx == (verifAt(b, 4*i+3)&1 != 0))
	}
	c := NewAddPathCapability(ts)
	verifAssert("cap-code-69", c.Code == CAP_ADD_PATH)
	verifAssertBytesEq("cap-value-is-concatenated-encodings", c.Value, b)
	verifCoverIf("list-two", len(ts) == 2)
}

func Verif_C15_mp_capability() {
	afi, safi := verifU16("afi"), verifU8("safi")
	c := NewMPExtensionsCapability(afi, safi)
	verifAssert("mp-code-1", c.Code == CAP_MP_EXTENSIONS)
	verifAssert("mp-len-4", len(c.Value) == 4)
	verifAssume(len(c.Value) == 4)
	verifAssert("mp-afi", uint16(c.Value[0])<<8|uint16(c.Value[1]) == afi)
	verifAssert("mp-reserved-zero", c.Value[2] == 0)
	verifAssert("mp-safi", c.Value[3] == safi)
	verifCover("mp-cap")
}

// (e) encoders are functions of their argument: an encoding already returned is not changed by later
// encodings, and concurrent encoders share no mutable state (happens-before race detection)
func Verif_C15_encodings_are_independent() {
	verifEngineOnly()
	verifRaceDetect(true)
	verifNote("sequence: KEEPALIVE, NOTIFICATION (symbolic code/subcode, data 0..8 bytes), OPEN (symbolic fixed fields, one capability with 0..4 value bytes), NOTIFICATION again, KEEPALIVE again are encoded one after the other, then every returned byte string is decoded again and must still give its value; then two goroutines encode a NOTIFICATION and a KEEPALIVE/OPEN concurrently under happens-before race detection (a race means the encoders share mutable state, so a round trip can fail under concurrency)")
	k1, _ := keepAliveMessage{}.encode()
	d1 := verifBuf("d1", 0, 8)
	n1 := &Notification{Code: verifU8("c1"), Subcode: verifU8("s1"), Data: d1}
	e1, _ := n1.encode()
	cv := verifBuf("capval", 0, 4)
	o := &openMessage{version: verifU8("ver"), asn: verifU16("asn"), holdTime: verifU16("hold"), bgpID: verifU32("id"),
		optionalParams: []optionalParam{&capabilityOptionalParam{capabilities: []Capability{{Code: verifU8("capcode"), Value: cv}}}}}
	eo, oerr := o.encode()
	d2 := verifBuf("d2", 0, 8)
	n2 := &Notification{Code: verifU8("c2"), Subcode: verifU8("s2"), Data: d2}
	e2, _ := n2.encode()
	k2, _ := keepAliveMessage{}.encode()
	verifAssert("open-encodes", oerr == nil)
	c15HeaderOK("first-keepalive-still", k1, verifMsgKeepalive, 0)
	c15HeaderOK("second-keepalive", k2, verifMsgKeepalive, 0)
	c15HeaderOK("first-notification-still", e1, verifMsgNotification, 2+len(d1))
	c15HeaderOK("second-notification", e2, verifMsgNotification, 2+len(d2))
	c15HeaderOK("open-still", eo, verifMsgOpen, 10+2+2+len(cv))
	verifAssume(len(e1) >= 21 && len(e2) >= 21)
	verifAssert("first-notification-fields-still", e1[19] == n1.Code && e1[20] == n1.Subcode)
	verifAssertBytesEq("first-notification-data-still", e1[21:], d1)
	verifAssert("second-notification-fields", e2[19] == n2.Code && e2[20] == n2.Subcode)
	verifAssertBytesEq("second-notification-data", e2[21:], d2)
	// concurrent encoders
	done := make(chan []byte, 2)
	go func() {
		b, _ := n1.encode()
		done <- b
	}()
	go func() {
		var b []byte
		if verifChoose("other-encoder", 2) == 0 {
			b, _ = keepAliveMessage{}.encode()
		} else {
			b, _ = o.encode()
		}
		done <- b
	}()
	<-done
	<-done
	verifCover("independent")
}
