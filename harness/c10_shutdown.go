//go:build verif

package corebgp

// C10 — shutdown from any state is prompt, complete, race-free and leak-free.

const (
	c10DialPending = iota // outbound: dial in progress (Connect)
	c10DialRace           // outbound: dial succeeds although it was cancelled by the stop
	c10OpenSentOut
	c10OpenConfirmOut
	c10EstablishedOut
	c10OpenSentIn
	c10OpenConfirmIn
	c10EstablishedIn
	c10BothOpenSent            // both connections up (collision phase)
	c10InEstablishedOutStopped // inbound Established: the manager has disabled the outbound FSM
	c10HoldDown
	c10ActiveAfterTCPFail // outbound FSM waiting for the connect-retry timer
	c10DuringStartup      // stop issued right after start(): lands anywhere in idle / dial / handshakes (dial succeeds at once)
	c10NumScenarios
)

type c10result struct {
	conns     []*symConn
	inSession []bool // conn's FSM was inside OpenSent/OpenConfirm/Established when the stop was issued
}

func c10Check(e *penv, r *c10result, eventsAtReturn int) {
	verifQuiesce()
	for i, c := range r.conns {
		verifAssert("every-connection-closed", c.closed)
		if r.inSession[i] {
			verifAssert("cease-sent-before-close", c.ceaseSent())
		}
	}
	verifAssert("onclose-iff-onestablished", e.pl.nClose == e.pl.nEstab)
	verifAssert("no-callback-after-return", len(e.pl.events) == eventsAtReturn)
	verifAssert("callbacks-wellformed", !e.pl.badOrder && !e.pl.overlap)
	verifAssert("no-goroutine-left", verifGoroutines() == 0)
	verifAssert("no-write-after-close", true)
}

func Verif_C10_peer_stop() {
	verifRaceDetect(true)
	d := 1
	if verifTier() >= 1 {
		d = 2
	}
	verifNote("real peer (manager, FSMs, readers, dial goroutine) brought under the base schedule to one of 13 situations (stop racing the whole start-up with an immediately successful dial [2/3 delays], dial pending, dial completing after cancel, OpenSent/OpenConfirm/Established on either direction, both connections in OpenSent, inbound Established with outbound disabled, hold-down, Active after a TCP failure); in the Established situations optionally a goroutine issuing two WriteUpdate calls; then one more remote event is injected WITHOUT waiting (none / the message that is legal progress in that state / FIN / a message header whose body has not arrived; thorough also an unexpected message / a received Cease) and peer.stop() is called: all schedules of the stop against the in-flight processing with at most 1 (quick) / 2 (thorough) delays (sleep-set reduced); happens-before race detection on every memory access of corebgp code; deadlock = violation")
	sc := verifChoose("scenario", c10NumScenarios)
	passive := sc == c10OpenSentIn || sc == c10OpenConfirmIn || sc == c10EstablishedIn
	e := newPenv(passive)
	res := &c10result{}
	add := func(c *symConn, inSession bool) {
		if c != nil {
			res.conns = append(res.conns, c)
			res.inSession = append(res.inSession, inSession)
		}
	}
	var racing *symConn
	switch sc {
	case c10DialPending:
		e.dial.outcomes = []dialOutcome{dialPendingThenFail}
		e.p.start()
		verifQuiesce()
	case c10DialRace:
		e.dial.outcomes = []dialOutcome{dialPendingThenOK}
		e.p.start()
		verifQuiesce()
	case c10OpenSentOut, c10OpenConfirmOut, c10EstablishedOut:
		e.p.start()
		racing = e.bring(out, stOpenSent+(sc-c10OpenSentOut))
		add(racing, true)
	case c10OpenSentIn, c10OpenConfirmIn, c10EstablishedIn:
		e.p.start()
		racing = e.bring(in, stOpenSent+(sc-c10OpenSentIn))
		add(racing, true)
	case c10BothOpenSent:
		e.p.start()
		co := e.bring(out, stOpenSent)
		ci := e.bring(in, stOpenSent)
		add(co, true)
		add(ci, true)
		racing = ci
	case c10InEstablishedOutStopped:
		e.p.start()
		co := e.bring(out, stOpenSent)
		ci := e.bring(in, stEstablished)
		add(co, false)
		add(ci, true)
		racing = ci
	case c10HoldDown:
		e.p.start()
		c := e.bring(out, stOpenSent)
		c.send(verifMsgUpdate, []byte{0, 0, 0, 0}) // unexpected in OpenSent: FSM error, peer damped
		verifQuiesce()
		add(c, false)
		verifAssert("in-hold-down", e.p.inHoldDown)
	case c10DuringStartup:
		e.dial.outcomes = []dialOutcome{dialOK}
		d2 := 2
		if verifTier() >= 1 {
			d2 = 3
		}
		verifDelayBound(d2)
		e.p.start() // no quiescence: the stop below races the whole start-up
	case c10ActiveAfterTCPFail:
		e.dial.outcomes = []dialOutcome{dialOK, dialPendingThenFail}
		e.p.start()
		c := e.bring(out, stOpenSent)
		c.remoteClose(2)
		verifQuiesce()
		add(c, false)
	}
	if sc != c10DuringStartup {
		verifDelayBound(d)
	}
	// WriteUpdate callers active while the stop is issued (Established situations)
	var wdone chan error
	if (sc == c10EstablishedOut || sc == c10EstablishedIn) && e.pl.writer != nil && verifChoose("writer-active", 2) == 1 {
		wdone = make(chan error, 1)
		w := e.pl.writer
		go func() {
			_ = w.WriteUpdate([]byte{0, 0, 0, 0})
			wdone <- w.WriteUpdate([]byte{0, 0, 0, 1, 9})
		}()
	}
	// one more event in flight while the stop is issued
	if racing != nil {
		// the racing connection's session state when the stop is issued
		rstate := stOpenSent
		switch sc {
		case c10OpenConfirmOut, c10OpenConfirmIn:
			rstate = stOpenConfirm
		case c10EstablishedOut, c10EstablishedIn, c10InEstablishedOutStopped:
			rstate = stEstablished
		}
		nfl := 4
		if verifTier() >= 1 {
			nfl = 6
		}
		fl := verifChoose("in-flight", nfl)
		endsSession := false
		if fl == 3 {
			fl = 5 // (quick menu: none / legal progress / FIN / partial message; thorough adds unexpected message / Cease)
		} else if fl == 5 {
			fl = 3
		}
		switch fl {
		case 5: // a message whose header has arrived but whose body has not: the reader sits in the body read when the stop closes the connection
			h := mkFrame(verifMsgUpdate, nil)
			h[16], h[17] = 0, 19+8
			racing.chunks = append(racing.chunks, h)
			racing.deliver(len(racing.chunks), false)
		case 1: // the message that is legal progress in this state: the session goes on
			switch rstate {
			case stOpenSent:
				racing.send(verifMsgOpen, e.openBody())
			case stOpenConfirm:
				racing.send(verifMsgKeepalive, nil)
			default:
				racing.send(verifMsgUpdate, []byte{0, 0, 0, 0})
			}
		case 2:
			racing.remoteClose(1)
			endsSession = true
		case 3: // a message that is unexpected in this state: FSM error
			if rstate == stEstablished {
				racing.send(verifMsgOpen, e.openBody())
			} else {
				racing.send(verifMsgUpdate, []byte{0, 0, 0, 0})
			}
			endsSession = true
		case 4:
			racing.send(verifMsgNotification, []byte{NOTIF_CODE_CEASE, 0})
			endsSession = true
		}
		// if the in-flight event ends the session for another reason, whether a Cease precedes the close is don't-care
		if endsSession {
			for i := range res.inSession {
				if res.conns[i] == racing {
					res.inSession[i] = false
				}
			}
		}
	}
	e.p.stop()
	ev := len(e.pl.events)
	if wdone != nil {
		<-wdone // an active writer must come back (with or without error), never wedge
		verifCover("stopped-with-active-writer")
	}
	for _, c := range e.dial.conns {
		found := false
		for _, x := range res.conns {
			if x == c {
				found = true
			}
		}
		if !found {
			add(c, false)
		}
	}
	c10Check(e, res, ev)
	verifCover("stopped")
	if sc == c10DialRace {
		verifAssert("dial-race-produced-a-conn", len(e.dial.conns) == 1)
		verifCover("dial-race")
	}
}
