//go:build verif

package corebgp

import (
	"net"
	"net/netip"
)

// C10 / C20 (serving half) — Server.Serve / Close / DeletePeer / AddPeer while serving.

type srvEnv struct {
	s        *Server
	pl       *monPlugin
	lis      *symListener
	lis2     *symListener // a second, idle listener: Serve is documented to take several
	remote   netip.Addr
	serveErr chan error
	outConns []*symConn
}

func newSrvEnv() *srvEnv {
	verifEngineOnly()
	verifDelayBound(0)
	e := &srvEnv{pl: newMonPlugin(), lis: newSymListener(), lis2: newSymListener(), remote: netip.AddrFrom4([4]byte{192, 0, 2, 1}), serveErr: make(chan error, 1)}
	e.s, _ = NewServer(netip.AddrFrom4([4]byte{10, 0, 0, 1}))
	verifDial = &dialScript{outcomes: []dialOutcome{dialOK, dialPendingThenFail}, mk: func(int) *symConn {
		c := newStagedConn("out")
		e.outConns = append(e.outConns, c)
		return c
	}}
	return e
}

func (e *srvEnv) serve() {
	go func() { e.serveErr <- e.s.Serve([]net.Listener{e.lis, e.lis2}) }()
	verifQuiesce()
}

func (e *srvEnv) establish(c *symConn) {
	c.send(verifMsgOpen, mkOpenBody(65001, 90, 0x0a000002))
	verifQuiesce()
	c.send(verifMsgKeepalive, nil)
	verifQuiesce()
}

func Verif_C10_server_close_and_delete() { srvCloseAndDelete() }

// also decides the C01 clause "every OnEstablished is matched by exactly one OnClose no later than the return of Server.Close/DeletePeer"
func Verif_C01_server_close_and_delete() { srvCloseAndDelete() }

func srvCloseAndDelete() {
	verifRaceDetect(true)
	d := 2
	if verifTier() >= 1 {
		d = 3
	}
	verifNote("Server with two listeners (the second one idle) and one peer; the peer is added before or after Serve (symbolic), is active (dials, session Established) or passive (inbound connection accepted through the listener, Established); then Server.Close or Server.DeletePeer is called while, symbolically, one more inbound connection is being offered to the listener: all schedules with at most 2 (quick) / 3 (thorough) delays (sleep-set reduced); happens-before race detection; afterwards Serve must have returned ErrServerClosed (Close) and Serve after Close must return ErrServerClosed")
	e := newSrvEnv()
	e.pl.yieldInCallbacks = true
	addBefore := verifChoose("add-before-serve", 2) == 1
	passive := verifChoose("passive", 2) == 1
	cfg := PeerConfig{RemoteAddress: e.remote, LocalAS: 65000, RemoteAS: 65001}
	var opts []PeerOption
	if passive {
		opts = append(opts, WithPassive())
	}
	if addBefore {
		verifAssert("addpeer-before-serve", e.s.AddPeer(cfg, e.pl, opts...) == nil)
		verifAssert("peer-not-started-before-serve", verifGoroutines() == 0)
	}
	e.serve()
	if !addBefore {
		verifAssert("addpeer-while-serving", e.s.AddPeer(cfg, e.pl, opts...) == nil)
		verifQuiesce()
	}
	var sess *symConn
	if passive {
		verifAssert("passive-peer-never-dials", verifDial.attempts == 0)
		sess = newStagedConn("in")
		sess.remote = e.remote
		e.lis.ch <- sess
		verifQuiesce()
		verifAssert("inbound-accepted", sess.wroteOpenFirst())
	} else {
		verifAssert("peer-started-and-dialled", len(e.outConns) == 1)
		if len(e.outConns) != 1 {
			return
		}
		sess = e.outConns[0]
	}
	e.establish(sess)
	verifAssert("session-established", e.pl.nEstab == 1)
	// racing inbound connection + the shutdown call
	verifDelayBound(d)
	var extra *symConn
	if verifChoose("extra-inbound", 2) == 1 {
		extra = newStagedConn("extra")
		extra.remote = e.remote
		go func() {
			select {
			case e.lis.ch <- extra:
			case <-e.lis.closed:
				extra.Close()
			}
		}()
	}
	mode := verifChoose("delete-or-close", 3)
	useDelete := mode == 1
	if mode == 2 {
		// DeletePeer and Close concurrently: by the time Close returns the deleted peer must be fully stopped too
		delDone := make(chan error, 1)
		go func() { delDone <- e.s.DeletePeer(e.remote) }()
		e.s.Close()
		verifAssert("concurrent-close-onclose-delivered-by-return", e.pl.nClose == e.pl.nEstab && e.pl.active == 0)
		verifAssert("concurrent-close-session-closed", sess.closed)
		derr := <-delDone
		verifAssert("concurrent-delete-result", derr == nil || derr == ErrPeerNotExist)
		verifCover("concurrent-delete-and-close")
	}
	if useDelete {
		verifAssert("deletepeer-ok", e.s.DeletePeer(e.remote) == nil)
		ev := len(e.pl.events)
		verifAssert("deleted-session-ceased-and-closed", sess.closed && sess.lastIsCease())
		verifAssert("deleted-peer-onclose", e.pl.nClose == 1)
		_, gerr := e.s.GetPeer(e.remote)
		verifAssert("deleted-peer-gone", gerr == ErrPeerNotExist)
		verifQuiesce()
		verifAssert("no-callback-after-delete-returns", len(e.pl.events) == ev)
		verifCover("deletepeer")
	}
	e.s.Close()
	ev := len(e.pl.events)
	err := <-e.serveErr
	verifAssert("serve-returns-errserverclosed", err == ErrServerClosed)
	verifAssert("session-ceased-and-closed", sess.closed && sess.lastIsCease())
	verifAssert("onclose-delivered", e.pl.nClose == 1 && e.pl.nEstab == 1)
	verifQuiesce()
	if extra != nil {
		verifAssert("racing-inbound-closed", extra.closed)
	}
	for _, c := range e.outConns {
		verifAssert("every-dialled-connection-closed", c.closed)
	}
	verifAssert("no-callback-after-close-returns", len(e.pl.events) == ev)
	verifAssert("no-goroutine-left", verifGoroutines() == 0)
	verifAssert("listener-closed", e.lis.isClosed && e.lis2.isClosed)
	verifAssert("serve-after-close", e.s.Serve(nil) == ErrServerClosed)
	verifCover("closed")
}

// the listener fails: Serve returns the listener error with every peer stopped; Close afterwards returns
func Verif_C10_listener_error() {
	verifRaceDetect(true)
	verifNote("Server with two listeners and an Established passive peer; one listener's Accept fails: Serve returns a non-nil error that is not ErrServerClosed, the session was ceased and closed, OnClose delivered, no goroutine left; Close afterwards returns and a later Serve returns ErrServerClosed")
	e := newSrvEnv()
	cfg := PeerConfig{RemoteAddress: e.remote, LocalAS: 65000, RemoteAS: 65001}
	verifAssert("addpeer", e.s.AddPeer(cfg, e.pl, WithPassive()) == nil)
	fl := &failingListener{symListener: newSymListener(), fail: make(chan struct{})}
	go func() { e.serveErr <- e.s.Serve([]net.Listener{fl, e.lis2}) }()
	verifQuiesce()
	sess := newStagedConn("in")
	sess.remote = e.remote
	fl.ch <- sess
	verifQuiesce()
	e.establish(sess)
	verifAssert("established", e.pl.nEstab == 1)
	verifDelayBound(1)
	close(fl.fail)
	err := <-e.serveErr
	verifAssert("serve-returns-the-listener-error", err != nil && err != ErrServerClosed)
	verifAssert("other-listener-closed-too", e.lis2.isClosed)
	verifAssert("session-ceased-and-closed", sess.closed && sess.lastIsCease())
	verifAssert("onclose-delivered", e.pl.nClose == 1)
	e.s.Close()
	verifQuiesce()
	verifAssert("no-goroutine-left", verifGoroutines() == 0)
	verifAssert("serve-after-close", e.s.Serve(nil) == ErrServerClosed)
	verifCover("listener-error")
}

type failingListener struct {
	*symListener
	fail chan struct{}
}

func (l *failingListener) Accept() (net.Conn, error) {
	select {
	case c := <-l.ch:
		return c, nil
	case <-l.fail:
		return nil, errSymReset
	case <-l.closed:
		return nil, errSymClosed
	}
}

// AddPeer racing Close: whichever way the race goes, nothing of the added peer survives Close + Serve's return
func Verif_C10_addpeer_races_close() { srvAddRacesClose() }

// the registry half of the same race (C20: consistent under any concurrency, a peer added while serving starts and is stopped as in C10)
func Verif_C20_addpeer_races_close() { srvAddRacesClose() }

func srvAddRacesClose() {
	verifRaceDetect(true)
	d := 2
	if verifTier() >= 1 {
		d = 3
	}
	verifNote("Server with two listeners and one active peer with an Established session; Server.Close is called while a second goroutine calls AddPeer for a second (active or passive, symbolic) peer: all schedules with at most 2 (quick) / 3 (thorough) delays (sleep-set reduced); happens-before race detection; after Close, Serve and AddPeer have returned: AddPeer succeeded and the registry holds the peer, every connection dialled for either peer is closed, no goroutine is left and no plugin callback starts any more")
	e := newSrvEnv()
	verifDial.outcomes = []dialOutcome{dialOK}
	e.pl.yieldInCallbacks = true
	cfg := PeerConfig{RemoteAddress: e.remote, LocalAS: 65000, RemoteAS: 65001}
	verifAssert("addpeer-before-serve", e.s.AddPeer(cfg, e.pl) == nil)
	e.serve()
	verifAssert("peer-started-and-dialled", len(e.outConns) == 1)
	if len(e.outConns) != 1 {
		return
	}
	sess := e.outConns[0]
	e.establish(sess)
	verifAssert("session-established", e.pl.nEstab == 1)
	second := netip.AddrFrom4([4]byte{192, 0, 2, 2})
	cfg2 := PeerConfig{RemoteAddress: second, LocalAS: 65000, RemoteAS: 65002}
	pl2 := newMonPlugin()
	pl2.yieldInCallbacks = true
	var opts []PeerOption
	if verifChoose("second-passive", 2) == 1 {
		opts = append(opts, WithPassive())
	}
	verifDelayBound(d)
	addDone := make(chan error, 1)
	go func() { addDone <- e.s.AddPeer(cfg2, pl2, opts...) }()
	e.s.Close()
	verifAssert("onclose-delivered-by-return-of-close", e.pl.nClose == 1 && e.pl.active == 0)
	verifAssert("session-ceased-and-closed", sess.closed && sess.lastIsCease())
	err := <-e.serveErr
	verifAssert("serve-returns-errserverclosed", err == ErrServerClosed)
	aerr := <-addDone
	verifAssert("racing-addpeer-succeeds", aerr == nil)
	ev, ev2 := len(e.pl.events), len(pl2.events)
	verifQuiesce()
	_, gerr := e.s.GetPeer(second)
	verifAssert("racing-addpeer-registered", gerr == nil)
	verifAssert("registry-has-both", len(e.s.ListPeers()) == 2)
	for _, c := range e.outConns {
		verifAssert("every-dialled-connection-closed", c.closed)
	}
	verifAssert("no-callback-after-close-and-addpeer-return", len(e.pl.events) == ev && len(pl2.events) == ev2)
	verifAssert("added-peer-no-session", pl2.nEstab == 0 && pl2.active == 0)
	verifAssert("no-goroutine-left", verifGoroutines() == 0)
	verifAssert("serve-after-close", e.s.Serve(nil) == ErrServerClosed)
	verifCoverIf("added-peer-was-started", len(e.outConns) == 2)
	verifCoverIf("added-peer-not-started", len(e.outConns) == 1)
}
