//go:build verif

package corebgp

import "time"

// C06 — hold time negotiation, hold-timer expiry and keepalive cadence.
//
// Time is not simulated: the engine models time.Timer as (armed, duration, channel) and
// the checks are stated on that contract — a timer fires no earlier than its duration
// after it was last (re)armed. "Never expires before H after the last message" therefore
// becomes "every KEEPALIVE/UPDATE taken by the FSM re-arms the hold timer with exactly H",
// "expires when silent" becomes "when the hold timer fires, NOTIFICATION(4,0) + close follow",
// and the cadence becomes "the keep-alive timer is always armed with H/3 and re-armed by
// every KEEPALIVE/UPDATE sent".

func c06H(local, remote uint16) uint16 { return verifIteU16(local < remote, local, remote) }

func c06Holds() (symCfg, uint16) {
	cfg := symConfig()
	remote := verifU16("remoteHold")
	verifAssume(verifOr(remote == 0, remote >= 3))
	return cfg, remote
}

func c06CheckArmed(f *fsm, h uint16) {
	H := time.Duration(h) * time.Second
	verifAssert("hold-time-in-force-is-min", f.holdTime == H)
	if !verifChooseBool(h != 0) {
		verifAssert("hold-0-hold-timer-not-armed", f.holdTimer == nil || !verifTimerArmed(f.holdTimer))
		verifAssert("hold-0-no-keepalive-timer", f.keepAliveTimer == nil || !verifTimerArmed(f.keepAliveTimer))
		return
	}
	verifAssert("hold-timer-armed-with-H", f.holdTimer != nil && verifTimerArmed(f.holdTimer) && verifTimerDur(f.holdTimer) == H)
	if f.keepAliveTimer == nil {
		verifAssert("keepalive-timer-exists", false)
		return
	}
	ka := verifTimerDur(f.keepAliveTimer)
	verifAssert("keepalive-timer-armed", verifTimerArmed(f.keepAliveTimer))
	verifAssert("keepalive-interval-is-a-third", verifAnd(3*ka <= H, verifAnd(3*ka+3 > H, ka > 0)))
}

// negotiation in OpenSent, all (local, remote) pairs
func Verif_C06_Arith_negotiation() {
	verifEngineOnly()
	verifNote("OpenSent receives a valid OPEN with symbolic remote hold time (0 or >= 3) under a symbolic local hold time (0 or >= 3): all pairs")
	cfg, remote := c06Holds()
	conn := newSymConn("c", nil, 0)
	conn.addFrame(verifMsgOpen, mkOpenBody(cfg.remoteAS, remote, 0x0a000002))
	verifAssume(verifNot(verifAnd(cfg.localAS == cfg.remoteAS, cfg.localID == 0x0a000002)))
	pl := newMonPlugin()
	p := mkPeer(cfg, pl)
	f := fsmInOpenSent(p, conn)
	to, err := f.openSent()
	verifAssert("open-accepted", to == openConfirmState && err == nil)
	h := c06H(cfg.holdSec, remote)
	c06CheckArmed(f, h)
	verifCoverIf("zero-by-remote", verifAnd(remote == 0, cfg.holdSec != 0))
	verifCoverIf("zero-by-local", verifAnd(cfg.holdSec == 0, remote != 0))
	verifCoverIf("remote-smaller", verifAnd(remote != 0, remote < cfg.holdSec))
	verifCoverIf("local-smaller", verifAnd(cfg.holdSec != 0, cfg.holdSec < remote))
}

// OpenConfirm: keep-alive timer expiry sends KEEPALIVE and re-arms; KEEPALIVE received re-arms the hold timer and establishes;
// hold timer expiry sends (4,0) and closes. Includes hold time 0.
func Verif_C06_Arith_openconfirm() {
	verifEngineOnly()
	cfg, remote := c06Holds()
	h := c06H(cfg.holdSec, remote)
	conn := newStagedConn("c")
	pl := newMonPlugin()
	p := mkPeer(cfg, pl)
	f := fsmNegotiated(p, conn, remote, 1)
	ev := verifChoose("event", 3)
	done := make(chan fsmState, 1)
	go func() {
		to, _ := f.openConfirm()
		done <- to
	}()
	verifQuiesce()
	switch ev {
	case 0: // keep-alive timer expires, then the remote's KEEPALIVE arrives
		if verifChooseBool(h != 0) {
			verifAssert("keepalive-timer-fires", verifFireTimer(f.keepAliveTimer))
			verifQuiesce()
			verifAssert("keepalive-sent-on-expiry", len(conn.writes) == 1 && isKeepalive(conn.writes[0]))
			c06CheckArmed(f, h)
		}
		before := 0
		if f.holdTimer != nil {
			before = verifTimerResets(f.holdTimer)
		}
		conn.send(verifMsgKeepalive, nil)
		verifQuiesce()
		to := <-done
		verifAssert("keepalive-establishes", to == establishedState)
		if verifChooseBool(h != 0) {
			verifAssert("keepalive-received-rearms-hold-timer", verifTimerResets(f.holdTimer) == before+1)
		}
		c06CheckArmed(f, h)
		verifAssert("no-expiry-notification", !conn.closed)
		verifCoverIf("openconfirm-hold-0-establishes", h == 0)
		verifCoverIf("openconfirm-hold-nonzero-establishes", h != 0)
	case 1: // silence: hold timer expires
		if !verifChooseBool(h != 0) {
			verifAssert("hold-0-nothing-can-expire", f.holdTimer == nil || !verifTimerArmed(f.holdTimer))
			return
		}
		verifAssert("hold-timer-fires", verifFireTimer(f.holdTimer))
		verifQuiesce()
		to := <-done
		verifAssert("expiry-goes-idle", to == idleState)
		verifAssert("expiry-sends-hold-timer-expired", len(conn.writes) == 1 && isNotification(conn.writes[0], NOTIF_CODE_HOLD_TIMER_EXPIRED, 0, 0))
		verifAssert("expiry-closes", conn.closed)
		verifCover("openconfirm-expiry")
	case 2: // the hold timer fires at the same moment as the KEEPALIVE arrives: either order, no wedge
		if !verifChooseBool(h != 0) {
			return
		}
		verifDelayBound(1)
		verifFireTimer(f.holdTimer)
		conn.send(verifMsgKeepalive, nil)
		verifQuiesce()
		to := <-done
		if to == establishedState {
			c06CheckArmed(f, h)
			verifAssert("stale-expiry-drained", !verifTimerPending(f.holdTimer))
			verifCover("openconfirm-tie-message-wins")
		} else {
			verifAssert("tie-expiry", to == idleState && conn.closed)
			verifCover("openconfirm-tie-timer-wins")
		}
	}
}

// Established: receive side re-arms the hold timer on every KEEPALIVE/UPDATE, send side re-arms the keep-alive timer.
func Verif_C06_Arith_established() {
	verifEngineOnly()
	verifNote("Established with symbolic (local, remote) hold times: sequence of 2 events from {KEEPALIVE received, UPDATE received, keep-alive timer expiry, local WriteUpdate}, then silence (hold timer expiry); incl. hold time 0 where no timer may be armed at any point; the plugin's update handler is non-nil or nil (symbolic)")
	cfg, remote := c06Holds()
	h := c06H(cfg.holdSec, remote)
	conn := newStagedConn("c")
	pl := newMonPlugin()
	// a plugin may return a nil UpdateMessageHandler: received UPDATEs are then dropped but still count as traffic
	pl.nilHandler = verifChoose("nil-update-handler", 2) == 1
	p := mkPeer(cfg, pl)
	f := fsmNegotiated(p, conn, remote, 1)
	done := make(chan fsmState, 1)
	go func() {
		to, _ := f.established()
		done <- to
	}()
	verifQuiesce()
	verifAssert("established", pl.nEstab == 1)
	c06CheckArmed(f, h)
	nz := verifChooseBool(h != 0)
	wantWrites := 0
	for step := 0; step < 2; step++ {
		hb, kb := 0, 0
		if nz {
			hb, kb = verifTimerResets(f.holdTimer), verifTimerResets(f.keepAliveTimer)
		}
		switch verifChoose("event", 4) {
		case 0:
			conn.send(verifMsgKeepalive, nil)
			verifQuiesce()
			if nz {
				verifAssert("keepalive-received-rearms-hold-timer", verifTimerResets(f.holdTimer) == hb+1)
			}
		case 1:
			conn.send(verifMsgUpdate, []byte{0, 0, 0, 0})
			verifQuiesce()
			verifAssert("update-delivered", pl.nilHandler || len(pl.updates) >= 1)
			if nz {
				verifAssert("update-received-rearms-hold-timer", verifTimerResets(f.holdTimer) == hb+1)
			}
		case 2:
			if !nz {
				continue
			}
			verifAssert("keepalive-timer-fires", verifFireTimer(f.keepAliveTimer))
			verifQuiesce()
			wantWrites++
			verifAssert("keepalive-sent-on-expiry", len(conn.writes) == wantWrites && isKeepalive(conn.writes[wantWrites-1]))
			verifAssert("keepalive-sent-rearms-keepalive-timer", verifTimerResets(f.keepAliveTimer) == kb+1)
		case 3:
			err := pl.writer.WriteUpdate([]byte{0, 0, 0, 0})
			verifQuiesce()
			wantWrites++
			verifAssert("writeupdate-ok", err == nil && len(conn.writes) == wantWrites)
			if nz {
				verifAssert("update-sent-rearms-keepalive-timer", verifTimerResets(f.keepAliveTimer) == kb+1)
			}
		}
		c06CheckArmed(f, h)
		verifAssert("session-still-up", !conn.closed && pl.nClose == 0)
	}
	if !nz {
		verifAssert("hold-0-no-periodic-keepalive", true)
		verifCover("established-hold-0")
		conn.remoteClose(1)
		verifQuiesce()
		<-done
		return
	}
	// silence
	verifAssert("hold-timer-fires", verifFireTimer(f.holdTimer))
	verifQuiesce()
	to := <-done
	verifAssert("expiry-goes-idle", to == idleState)
	verifAssert("expiry-sends-hold-timer-expired", len(conn.writes) == wantWrites+1 && isNotification(conn.writes[wantWrites], NOTIF_CODE_HOLD_TIMER_EXPIRED, 0, 0))
	verifAssert("expiry-closes", conn.closed && pl.nClose == 1)
	verifCover("established-expiry")
}

// the hold time is negotiated afresh for every session: nothing of an earlier session on the same
// (reused, outbound) FSM object leaks into the next one
func Verif_C06_Arith_renegotiated_per_session() { c06SecondSession() }

// C14 half of the same scenario: the OPEN of the second session still carries the configured hold time
func Verif_C14_Arith_open_on_second_session() { c06SecondSession() }

func c06SecondSession() {
	verifNote("real peer, local hold time symbolic (>= 3): first outbound session with remote hold time r1 (symbolic, 0 or >= 3) reaches Established and is ended by FIN, by a received Cease, or already in OpenConfirm by FIN; the same outbound FSM re-dials after its idle-hold timer; second session with remote hold time r2 (symbolic, independent of r1): the OPEN sent on the second connection is byte-identical to the first one (configured hold time), the hold time in force is min(local, r2) and the timers are armed accordingly, also after a WriteUpdate in the second session")
	e := newPenv(false)
	e.dial.outcomes = []dialOutcome{dialOK, dialOK, dialPendingThenFail}
	r1, r2 := verifU16("r1"), verifU16("r2")
	verifAssume(verifAnd(verifOr(r1 == 0, r1 >= 3), verifOr(r2 == 0, r2 >= 3)))
	e.p.start()
	verifQuiesce()
	c1 := e.conns[out]
	if c1 == nil {
		verifAssert("first-dial", false)
		return
	}
	c1.send(verifMsgOpen, mkOpenBody(e.cfg.remoteAS, r1, e.remoteID))
	verifQuiesce()
	endKind := verifChoose("first-session-ends", 3)
	if endKind != 2 {
		c1.send(verifMsgKeepalive, nil)
		verifQuiesce()
		verifAssert("first-session-established", e.pl.nEstab == 1)
	}
	f := e.p.fsms[out]
	if f == nil {
		verifAssert("outbound-fsm", false)
		return
	}
	c06CheckArmed(f, c06H(e.cfg.holdSec, r1))
	if endKind == 1 {
		c1.send(verifMsgNotification, []byte{NOTIF_CODE_CEASE, 0})
	} else {
		c1.remoteClose(1)
	}
	verifQuiesce()
	verifAssert("first-connection-closed", c1.closed)
	if e.p.fsms[out] != f || !verifFireTimer(f.idleHoldTimer) {
		verifAssert("same-outbound-fsm-waits-for-idle-hold", false)
		return
	}
	verifQuiesce()
	c2 := e.conns[out]
	verifAssert("second-connection", c2 != nil && c2 != c1)
	if c2 == nil || c2 == c1 || len(c1.writes) == 0 || len(c2.writes) == 0 {
		return
	}
	o1, o2 := c1.writes[0], c2.writes[0]
	verifAssert("second-open-carries-configured-hold-time", len(o2) >= 29 && uint16(o2[22])<<8|uint16(o2[23]) == e.cfg.holdSec)
	verifAssertBytesEq("second-open-identical-to-first", o2, o1)
	c2.send(verifMsgOpen, mkOpenBody(e.cfg.remoteAS, r2, e.remoteID))
	verifQuiesce()
	verifAssert("second-open-exchange-done", e.p.fsmState[out] == openConfirmState)
	c06CheckArmed(f, c06H(e.cfg.holdSec, r2))
	c2.send(verifMsgKeepalive, nil)
	verifQuiesce()
	verifAssert("second-session-established", e.pl.nEstab == 1+verifIteInt(endKind != 2, 1, 0))
	c06CheckArmed(f, c06H(e.cfg.holdSec, r2))
	// a locally sent UPDATE re-arms the keep-alive timer of THIS session only (none when the hold time is 0)
	if e.pl.writer != nil {
		verifAssert("writeupdate-in-second-session", e.pl.writer.WriteUpdate([]byte{0, 0, 0, 0}) == nil)
		verifQuiesce()
		c06CheckArmed(f, c06H(e.cfg.holdSec, r2))
	}
	verifCoverIf("second-hold-larger", verifAnd(r1 != 0, r2 > r1))
	verifCoverIf("first-zero-second-not", verifAnd(r1 == 0, r2 != 0))
	e.p.stop()
}

// C05 on the two-session scenario (hold times independent, incl. 0, with a WriteUpdate in the second session): no panic, nothing wedges
func Verif_C05_Arith_second_session_any_hold_times() { c06SecondSession() }
