//go:build verif

package corebgp

import (
	"bytes"
	"errors"
	"fmt"
	"io"
	"net/netip"
	"strings"
	"sync"
	"sync/atomic"
	"time"
)

// Translator validation: the same concrete computations are run by the engine (interpreting the
// go/ssa of the real code) and natively (compiled code); every verifObserve value must agree.

type tvRec struct{ n int }

func tvErrClass(err error) string {
	if err == nil {
		return "nil"
	}
	var cl c17classes
	f := false
	c17Walk(err, &cl, nil, &f, 0)
	s := ""
	if cl.notif {
		s += "N"
	}
	if cl.taw {
		s += "T"
	}
	if cl.ad {
		s += "D"
	}
	if cl.otherUE {
		s += "U"
	}
	if s == "" {
		s = "other"
	}
	return s
}

func tvPrefix(tag string, p netip.Prefix) {
	verifObserve(tag+".bits", p.Bits())
	a := p.Addr().AsSlice()
	verifObserve(tag+".addr", a)
}

func Verif_TV_update_vectors() {
	for _, v := range tvUpdateVectors {
		b := v.b
		c16body = b
		ud := NewUpdateDecoder[*tvRec](
			func(t *tvRec, w []byte) error {
				verifObserve("wr.len", len(w))
				ps, err := decodePrefixes(w, false)
				verifObserve("wr.v4.err", err != nil)
				for _, p := range ps {
					tvPrefix("wr.v4", p)
				}
				aps, err := decodeAddPathPrefixes(w, false)
				verifObserve("wr.ap.err", err != nil)
				for _, p := range aps {
					verifObserve("wr.ap.id", p.ID)
					tvPrefix("wr.ap", p.Prefix)
				}
				return nil
			},
			func(t *tvRec, code uint8, flags PathAttrFlags, val []byte) error {
				verifObserve("pa.code", code)
				verifObserve("pa.flags", uint8(flags))
				verifObserve("pa.off", verifSliceOff(val, b))
				verifObserve("pa.val", val)
				var err error
				switch code {
				case PATH_ATTR_ORIGIN:
					var x OriginPathAttr
					err = x.Decode(flags, val)
					verifObserve("origin", uint8(x))
				case PATH_ATTR_AS_PATH:
					var x ASPathAttr
					err = x.Decode(flags, val)
					for _, as := range x.ASSequence {
						verifObserve("aspath.seq", as)
					}
					for _, as := range x.ASSet {
						verifObserve("aspath.set", as)
					}
				case PATH_ATTR_NEXT_HOP:
					var x NextHopPathAttr
					err = x.Decode(flags, val)
					if err == nil {
						verifObserve("nexthop", netip.Addr(x).AsSlice())
					}
				case PATH_ATTR_MED:
					var x MEDPathAttr
					err = x.Decode(flags, val)
					verifObserve("med", uint32(x))
				case PATH_ATTR_LOCAL_PREF:
					var x LocalPrefPathAttr
					err = x.Decode(flags, val)
					verifObserve("lpref", uint32(x))
				case PATH_ATTR_ATOMIC_AGGREGATE:
					var x AtomicAggregatePathAttr
					err = x.Decode(flags, val)
					verifObserve("atomicagg", bool(x))
				case PATH_ATTR_AGGREGATOR:
					var x AggregatorPathAttr
					err = x.Decode(flags, val)
					verifObserve("aggregator.as", x.AS)
				case PATH_ATTR_COMMUNITY:
					var x CommunitiesPathAttr
					err = x.Decode(flags, val)
					for _, c := range x {
						verifObserve("community", c)
					}
				case PATH_ATTR_LARGE_COMMUNITY:
					var x LargeCommunitiesPathAttr
					err = x.Decode(flags, val)
					for _, c := range x {
						verifObserve("largecomm", c.GlobalAdmin)
						verifObserve("largecomm", c.LocalData1)
						verifObserve("largecomm", c.LocalData2)
					}
				case PATH_ATTR_MP_REACH_NLRI:
					err = NewMPReachNLRIDecodeFn(func(t *tvRec, afi uint16, safi uint8, nh, nlri []byte) error {
						verifObserve("mpreach.afi", afi)
						verifObserve("mpreach.safi", safi)
						verifObserve("mpreach.nh", nh)
						verifObserve("mpreach.nlri", nlri)
						nhs, e1 := DecodeMPReachIPv6NextHops(nh)
						for _, a := range nhs {
							verifObserve("mpreach.nh6", a.AsSlice())
						}
						ps, e2 := DecodeMPIPv6Prefixes(nlri)
						for _, p := range ps {
							tvPrefix("mpreach.p6", p)
						}
						aps, e3 := DecodeMPIPv6AddPathPrefixes(nlri)
						for _, p := range aps {
							verifObserve("mpreach.ap6.id", p.ID)
							tvPrefix("mpreach.ap6", p.Prefix)
						}
						verifObserve("mpreach.errs", tvErrClass(e1)+tvErrClass(e2)+tvErrClass(e3))
						return nil
					})(t, flags, val)
				case PATH_ATTR_MP_UNREACH_NLRI:
					err = NewMPUnreachNLRIDecodeFn(func(t *tvRec, afi uint16, safi uint8, w []byte) error {
						verifObserve("mpunreach.afi", afi)
						verifObserve("mpunreach.safi", safi)
						verifObserve("mpunreach.w", w)
						ps, e2 := DecodeMPIPv6Prefixes(w)
						for _, p := range ps {
							tvPrefix("mpunreach.p6", p)
						}
						verifObserve("mpunreach.err", tvErrClass(e2))
						return nil
					})(t, flags, val)
				}
				verifObserve("pa.err", tvErrClass(err))
				return err
			},
			func(t *tvRec, n []byte) error {
				verifObserve("nlri", n)
				ps, err := decodePrefixes(n, false)
				verifObserve("nlri.v4.err", err != nil)
				for _, p := range ps {
					tvPrefix("nlri.v4", p)
				}
				return nil
			})
		err := ud.Decode(&tvRec{}, b)
		verifObserve("decode.err", tvErrClass(err))
		n := UpdateNotificationFromErr(err)
		if n != nil {
			verifObserve("notif.code", n.Code)
			verifObserve("notif.subcode", n.Subcode)
			verifObserve("notif.data", n.Data)
		}
	}
}

func Verif_TV_codec_vectors() {
	// OPEN built the way corebgp builds it, encoded, decoded and validated
	caps := []Capability{NewMPExtensionsCapability(AFI_IPV6, SAFI_UNICAST), NewAddPathCapability([]AddPathTuple{{AFI: AFI_IPV4, SAFI: SAFI_UNICAST, Tx: true, Rx: true}, {AFI: AFI_IPV6, SAFI: SAFI_UNICAST, Rx: true}}), {Code: CAP_FOUR_OCTET_AS, Value: []byte{1, 2, 3, 4}}, {Code: 200}}
	for _, as := range []uint32{65001, 4200000001} {
		o, err := newOpenMessage(as, 90*time.Second, 0x0a000001, caps)
		verifObserve("open.err", err != nil)
		enc, err := o.encode()
		verifObserve("open.enc.err", err != nil)
		verifObserve("open.enc", enc)
		m, err := messageFromBytes(enc[19:], enc[18])
		verifObserve("open.dec.err", err != nil)
		d := m.(*openMessage)
		verifObserve("open.dec.asn", d.asn)
		verifObserve("open.dec.hold", d.holdTime)
		verifObserve("open.dec.id", d.bgpID)
		for _, c := range d.getCapabilities() {
			verifObserve("open.dec.cap.code", c.Code)
			verifObserve("open.dec.cap.value", c.Value)
			if c.Code == CAP_ADD_PATH {
				ts, err := DecodeAddPathTuples(c.Value)
				verifObserve("open.dec.addpath.err", err != nil)
				for _, t := range ts {
					verifObserve("open.dec.addpath.afi", t.AFI)
					verifObserve("open.dec.addpath.tx", t.Tx)
					verifObserve("open.dec.addpath.rx", t.Rx)
				}
			}
		}
		for _, cfg := range [][3]uint32{{0x0a000002, 65000, as}, {0x0a000001, as, as}, {0x0a000002, 65000, as + 1}} {
			verr := d.validate(cfg[0], cfg[1], cfg[2])
			n, out := c02Notif(verr)
			verifObserve("open.validate.err", verr != nil)
			if n != nil {
				verifObserve("open.validate.code", n.Code)
				verifObserve("open.validate.subcode", n.Subcode)
				verifObserve("open.validate.data", n.Data)
				verifObserve("open.validate.out", out)
			}
		}
	}
	// malformed OPEN bodies
	for _, b := range [][]byte{{}, {4, 0, 1}, {4, 0xfd, 0xe9, 0, 90, 10, 0, 0, 1, 0}, {4, 0xfd, 0xe9, 0, 90, 10, 0, 0, 1, 2, 3, 0}, {4, 0xfd, 0xe9, 0, 2, 224, 0, 0, 1, 8, 2, 6, 65, 4, 0, 0, 0xfd, 0xe9}, {5, 0xfd, 0xe9, 0, 90, 10, 0, 0, 1, 4, 2, 2, 1, 0}} {
		m, err := messageFromBytes(b, verifMsgOpen)
		verifObserve("badopen.err", err != nil)
		n, _ := c02Notif(err)
		if n != nil {
			verifObserve("badopen.code", n.Code)
			verifObserve("badopen.subcode", n.Subcode)
		}
		if err == nil {
			verr := m.(*openMessage).validate(0x0a000002, 65000, 65001)
			n, _ := c02Notif(verr)
			verifObserve("badopen.validate", verr != nil)
			if n != nil {
				verifObserve("badopen.v.code", n.Code)
				verifObserve("badopen.v.subcode", n.Subcode)
				verifObserve("badopen.v.data", n.Data)
			}
		}
	}
	// NOTIFICATION round trips
	for _, n := range []*Notification{{Code: 6}, {Code: 1, Subcode: 3, Data: []byte{9}}, {Code: 3, Subcode: 5, Data: []byte{1, 2, 3, 4, 5}}} {
		enc, _ := n.encode()
		verifObserve("notif.enc", enc)
		var d Notification
		err := d.decode(enc[19:])
		verifObserve("notif.dec.err", err != nil)
		verifObserve("notif.dec.code", d.Code)
		verifObserve("notif.dec.data", d.Data)
	}
	verifObserve("hdr", prependHeader([]byte{1, 2, 3}, verifMsgUpdate))
	var ne *notificationError
	verifObserve("as", errors.As(newNotificationError(&Notification{Code: 2}, true), &ne))
}

// Semantics of the engine's goroutine / channel / select / sync / timer / defer implementation against
// the real runtime, on programs whose observations do not depend on the schedule.
func Verif_TV_concurrency_semantics() {
	// unbuffered ping-pong
	ping, pong := make(chan int), make(chan int)
	go func() {
		for v := range ping {
			pong <- v * 2
		}
		close(pong)
	}()
	sum := 0
	for i := 1; i <= 5; i++ {
		ping <- i
		sum += <-pong
	}
	close(ping)
	_, ok := <-pong
	verifObserve("pingpong.sum", sum)
	verifObserve("pingpong.closed", !ok)
	// buffered FIFO, len/cap, receive from closed
	b := make(chan int, 3)
	b <- 7
	b <- 8
	verifObserve("buf.len", len(b))
	verifObserve("buf.cap", cap(b))
	close(b)
	x, ok1 := <-b
	y, ok2 := <-b
	z, ok3 := <-b
	verifObserve("buf.x", x)
	verifObserve("buf.y", y)
	verifObserve("buf.z", z)
	verifObserve("buf.oks", ok1 && ok2 && !ok3)
	// select: default when nothing is ready, nil channel never ready, closed channel always ready
	var nilch chan int
	empty := make(chan int)
	r := 0
	select {
	case <-nilch:
		r = 1
	case <-empty:
		r = 2
	default:
		r = 3
	}
	verifObserve("select.default", r)
	done := make(chan struct{})
	close(done)
	select {
	case <-nilch:
		r = 1
	case <-done:
		r = 2
	}
	verifObserve("select.closed", r)
	select {
	case empty2 := <-make(chan int, 1):
		r = empty2
	case b2 := <-func() chan int { c := make(chan int, 1); c <- 42; return c }():
		r = b2
	}
	verifObserve("select.buffered", r)
	// sync.Once / WaitGroup / Mutex
	var once sync.Once
	var wg sync.WaitGroup
	var mu sync.Mutex
	ran, counter := 0, 0
	for g := 0; g < 4; g++ {
		wg.Add(1)
		go func() {
			defer wg.Done()
			once.Do(func() { ran++ })
			for k := 0; k < 5; k++ {
				mu.Lock()
				counter++
				mu.Unlock()
			}
		}()
	}
	wg.Wait()
	verifObserve("once.ran", ran)
	verifObserve("mutex.counter", counter)
	// sync/atomic (functions and typed values), RWMutex, TryLock — not used by corebgp, modelled for changed code
	var ai atomic.Int64
	var au uint32
	var ab atomic.Bool
	var ap atomic.Pointer[Notification]
	var rw sync.RWMutex
	var wg2 sync.WaitGroup
	shared := 0
	for g := 0; g < 3; g++ {
		wg2.Add(1)
		go func() {
			defer wg2.Done()
			for k := 0; k < 4; k++ {
				ai.Add(2)
				atomic.AddUint32(&au, 1)
				rw.Lock()
				shared++
				rw.Unlock()
				rw.RLock()
				_ = shared
				rw.RUnlock()
			}
			ab.Store(true)
			ap.CompareAndSwap(nil, &Notification{Code: 9})
		}()
	}
	wg2.Wait()
	verifObserve("atomic.int64", int(ai.Load()))
	verifObserve("atomic.uint32", int(atomic.LoadUint32(&au)))
	verifObserve("atomic.bool", ab.Load())
	verifObserve("atomic.pointer", ap.Load() != nil && ap.Load().Code == 9)
	verifObserve("atomic.cas-miss", atomic.CompareAndSwapUint32(&au, 5, 6))
	verifObserve("atomic.cas-hit", atomic.CompareAndSwapUint32(&au, 12, 40))
	verifObserve("atomic.swap", int(atomic.SwapUint32(&au, 1))+int(au))
	verifObserve("rwmutex.shared", shared)
	var tl sync.Mutex
	verifObserve("trylock.free", tl.TryLock())
	verifObserve("trylock.held", tl.TryLock())
	tl.Unlock()
	// time.Time arithmetic on values from time.Now()
	t0 := time.Now()
	verifObserve("time.zero-iszero", time.Time{}.IsZero())
	verifObserve("time.now-iszero", t0.IsZero())
	verifObserve("time.add-after", t0.Add(time.Second).After(t0))
	verifObserve("time.add0-after", t0.Add(0).After(t0))
	verifObserve("time.before", t0.Before(t0.Add(time.Minute)))
	verifObserve("time.sub", int(t0.Add(3*time.Second).Sub(t0)))
	verifObserve("time.equal", t0.Add(0).Equal(t0))
	// bytes / strings helpers that end in internal/bytealg
	rep := bytes.Repeat([]byte{0xAB, 1}, 3)
	verifObserve("bytes.repeat", rep)
	verifObserve("bytes.indexbyte", bytes.IndexByte(rep, 1))
	verifObserve("bytes.indexbyte-miss", bytes.IndexByte(rep, 7))
	verifObserve("bytes.compare-lt", bytes.Compare(rep, []byte{0xAB, 2}))
	verifObserve("bytes.compare-gt", bytes.Compare(rep, []byte{0xAB, 1}))
	verifObserve("bytes.compare-eq", bytes.Compare(rep[:2], []byte{0xAB, 1}))
	verifObserve("bytes.count", bytes.Count(rep, []byte{1}))
	verifObserve("strings.indexbyte", strings.IndexByte("a:b", ':'))
	verifObserve("strings.hasprefix", strings.HasPrefix("192.0.2.1", "192.0."))
	// timers (pre-1.23 channel semantics of this module)
	tm := time.NewTimer(0)
	<-tm.C
	verifObserve("timer.stop-after-fire", tm.Stop())
	t2 := time.NewTimer(time.Hour)
	verifObserve("timer.stop-armed", t2.Stop())
	verifObserve("timer.stop-again", t2.Stop())
	verifObserve("timer.reset-stopped", t2.Reset(time.Hour))
	verifObserve("timer.reset-armed", t2.Reset(time.Hour))
	t2.Stop()
	// defers run LIFO and see updated variables through closures
	order := ""
	func() {
		defer func() { order += "a" }()
		defer func() { order += "b" }()
		order += "c"
	}()
	verifObserve("defer.order", order)
	// result passing through channels of structs / interfaces / errors
	type msg struct {
		err error
		n   *Notification
	}
	mc := make(chan msg, 1)
	mc <- msg{err: io.EOF, n: &Notification{Code: 6, Data: []byte{1, 2}}}
	got := <-mc
	verifObserve("chan.err-is-eof", got.err == io.EOF)
	verifObserve("chan.notif", got.n.Data)
	var ne *notificationError
	wrapped := fmt.Errorf("outer: %w", fmt.Errorf("inner: %w", newNotificationError(got.n, false)))
	verifObserve("errors.as-through-two-wraps", errors.As(wrapped, &ne) && ne.notification == got.n)
	verifObserve("errors.as-miss", errors.As(fmt.Errorf("x: %v", io.EOF), &ne))
	joined := errors.Join(nil, io.EOF, nil, wrapped)
	verifObserve("errors.join-as", errors.As(joined, &ne))
	verifObserve("errors.join-nil", errors.Join(nil, nil) == nil)
}
