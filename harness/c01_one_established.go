//go:build verif

package corebgp

// C01 — one Established session per peer; well-formed plugin callback history.
// Monitors live in monPlugin (overlap / order / alternation) and are asserted here on
// real peers driven through event mixes on both connections.

func c01Monitors(e *penv, conns []*symConn) {
	verifAssert("never-two-established-nor-out-of-order-callbacks", !e.pl.badOrder)
	verifAssert("callbacks-never-overlap", !e.pl.overlap)
	open := e.pl.nEstab - e.pl.nClose
	verifAssert("onestablished-onclose-alternate", open == 0 || open == 1)
	// GetCapabilities exactly once per connection on which an OPEN was sent
	sentOpen := 0
	for _, c := range conns {
		if c != nil && len(c.writes) > 0 {
			sentOpen++
			verifAssert("first-write-is-the-open", verifAt(c.writes[0], 18) == verifMsgOpen)
			nOpenFrames := 0
			for _, w := range c.writes {
				if verifAt(w, 18) == verifMsgOpen {
					nOpenFrames++
				}
			}
			verifAssert("one-open-per-connection", nOpenFrames == 1)
		}
	}
	verifAssert("getcapabilities-once-per-open-sent", e.pl.nGetCaps == sentOpen)
	// event order: every OnOpenMessage / OnEstablished is preceded by enough GetCapabilities calls
	caps, opens := 0, 0
	for _, ev := range e.pl.events {
		switch ev.kind {
		case evGetCaps:
			caps++
		case evOnOpen:
			opens++
			verifAssert("onopenmessage-only-after-an-open-was-sent", opens <= caps)
		}
	}
	verifAssert("onopenmessage-at-most-once-per-connection", e.pl.nOpen <= sentOpen)
}

func Verif_C01_event_mix_two_connections() {
	K, d := 2, 1
	if verifTier() >= 1 {
		K, d = 3, 1
	}
	verifNote("real peer with both connections up (outbound dialled, inbound injected): both in OpenSent, or one of them already in OpenConfirm (symbolic; start-up under the base schedule), then K events (2 quick / 3 thorough), each symbolically {valid OPEN, KEEPALIVE, FIN} on a symbolically chosen connection, delivered back to back (no quiescence in between): all schedules with at most 1 delay (sleep-set reduced), plugin callbacks contain a scheduling point (so overlapping callbacks would be observed); then quiescence, monitors, peer.stop(), monitors")
	e := newPenv(false)
	e.pl.yieldInCallbacks = true
	e.p.start()
	// start: both in OpenSent, or one of them already in OpenConfirm (its OPEN exchange done)
	so, si := stOpenSent, stOpenSent
	ns, ne := 2, 3 // one side already in OpenConfirm; events OPEN / KEEPALIVE / FIN (both tiers: with 3 events the
	// larger menu {UPDATE, both in OpenSent} does not finish within the thorough budget; UPDATEs and the
	// both-in-OpenSent start are exercised by event_sequences_full_menu and by C07)
	switch verifChoose("start", ns) {
	case 0:
		so = stOpenConfirm
	case 1:
		si = stOpenConfirm
	}
	co := e.bring(out, so)
	ci := e.bring(in, si)
	conns := []*symConn{co, ci}
	verifDelayBound(d)
	for k := 0; k < K; k++ {
		c := conns[verifChoose("conn", 2)]
		if c.final {
			continue
		}
		switch verifChoose("event", ne) {
		case 0:
			c.send(verifMsgOpen, e.openBody())
		case 1:
			c.send(verifMsgKeepalive, nil)
		case 2:
			c.remoteClose(1)
		case 3:
			c.send(verifMsgUpdate, []byte{0, 0, 0, 0})
		}
	}
	verifQuiesce()
	all := append([]*symConn{}, conns...)
	for _, c := range e.dial.conns {
		if c != co {
			all = append(all, c)
		}
	}
	c01Monitors(e, all)
	if e.pl.nEstab-e.pl.nClose == 1 {
		nOpen := 0
		for _, c := range all {
			if !c.closed {
				nOpen++
			}
		}
		verifCover("one-established")
		verifAssert("established-session-owns-a-live-connection", nOpen >= 1)
	}
	verifCoverIf("session-ended-and-closed", e.pl.nClose >= 1)
	e.p.stop()
	all = all[:0]
	all = append(all, conns...)
	for _, c := range e.dial.conns {
		if c != co {
			all = append(all, c)
		}
	}
	c01Monitors(e, all)
	verifAssert("every-onestablished-matched-by-onclose-at-stop", e.pl.nClose == e.pl.nEstab)
	ev := len(e.pl.events)
	verifQuiesce()
	verifAssert("no-callback-after-stop", len(e.pl.events) == ev)
}

// restarts: a session ends (symbolic cause) and the peer re-establishes on a new outbound connection or a new inbound one
func Verif_C01_restart_alternation() {
	verifNote("session Established (outbound), ended by FIN / Cease / hold-timer expiry / handler Notification; then a second session is Established on a re-dialled outbound connection or on a new inbound connection (symbolic); monitors after every phase")
	e := newPenv(false)
	e.pl.yieldInCallbacks = true
	e.dial.outcomes = []dialOutcome{dialOK, dialOK, dialPendingThenFail}
	e.p.options.idleHoldTime = 0
	e.p.start()
	c1 := e.bring(out, stEstablished)
	verifAssert("first-established", e.pl.nEstab == 1 && e.pl.nClose == 0)
	switch verifChoose("end", 4) {
	case 0:
		c1.remoteClose(1)
	case 1:
		c1.send(verifMsgNotification, []byte{NOTIF_CODE_CEASE, 0})
	case 2:
		verifFireTimer(e.p.fsms[out].holdTimer)
	case 3:
		e.pl.handlerNotifAt = 0
		e.pl.handlerNotif = &Notification{Code: NOTIF_CODE_CEASE}
		c1.send(verifMsgUpdate, []byte{0, 0, 0, 0})
	}
	verifQuiesce()
	verifAssert("first-closed", e.pl.nEstab == 1 && e.pl.nClose == 1)
	if e.p.inHoldDown { // hold-timer expiry is a protocol error: the hold-down period has to end first (C12)
		verifFireTimer(e.p.startupDelayTimer)
		verifQuiesce()
	}
	conns := []*symConn{c1}
	if verifChoose("second-via", 2) == 0 {
		if f := e.p.fsms[out]; f != nil && verifTimerArmed(f.idleHoldTimer) {
			verifFireTimer(f.idleHoldTimer)
		}
		c2 := e.bring(out, stEstablished)
		conns = append(conns, c2)
	} else {
		c2 := e.bring(in, stEstablished)
		conns = append(conns, c2)
	}
	for _, c := range e.dial.conns {
		seen := false
		for _, x := range conns {
			if x == c {
				seen = true
			}
		}
		if !seen {
			conns = append(conns, c)
		}
	}
	verifAssert("second-established", e.pl.nEstab == 2 && e.pl.nClose == 1)
	c01Monitors(e, conns)
	verifCover("restarted")
	e.p.stop()
	verifAssert("all-closed-at-stop", e.pl.nClose == 2)
	c01Monitors(e, conns)
}

// the shutdown racing the very moment a session becomes Established: whatever the plugin saw is still a
// well-formed history (OnClose only after an OnEstablished, every OnEstablished closed by the return of stop)
func Verif_C01_stop_races_the_established_grant() {
	d := 3
	if verifTier() >= 1 {
		d = 4
	}
	verifNote("real peer with one connection (outbound or inbound, symbolic) in OpenConfirm; the remote's KEEPALIVE is delivered and peer.stop() is called without waiting: all schedules with at most 3 (quick) / 4 (thorough) delays (so the stop also lands between the manager's grant of Established and the FSM acting on it); callbacks yield; monitors: OnClose never without a preceding OnEstablished, no overlap, OnEstablished == OnClose when stop has returned, no callback afterwards")
	dir := verifChoose("direction", 2)
	e := newPenv(dir == in)
	e.pl.yieldInCallbacks = true
	e.p.start()
	c := e.bring(dir, stOpenConfirm)
	if c == nil {
		return
	}
	verifDelayBound(d)
	c.send(verifMsgKeepalive, nil)
	e.p.stop()
	ev := len(e.pl.events)
	verifAssert("every-onestablished-closed-by-the-return-of-stop", e.pl.nEstab == e.pl.nClose && e.pl.active == 0)
	verifAssert("onclose-only-after-onestablished", !e.pl.badOrder)
	verifAssert("callbacks-never-overlap", !e.pl.overlap)
	verifQuiesce()
	verifAssert("no-callback-after-stop", len(e.pl.events) == ev)
	verifAssert("connection-closed", c.closed)
	verifCoverIf("established-before-stop-won", e.pl.nEstab == 1)
	verifCoverIf("stop-won", e.pl.nEstab == 0)
}
