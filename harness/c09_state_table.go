//go:build verif

package corebgp

// C09 — state-dependent message handling follows RFC 4271 §8.2.2 / RFC 6608.

const (
	stOpenSent = iota
	stOpenConfirm
	stEstablished
)

func c09Run(f *fsm, state int) (fsmState, error) {
	switch state {
	case stOpenSent:
		return f.openSent()
	case stOpenConfirm:
		return f.openConfirm()
	}
	return f.established()
}

func c09IsOutNotifErr(err error, code uint8) bool {
	n, out := c02Notif(err)
	return n != nil && out && n.Code == code
}

func Verif_C09_state_message_table() {
	verifEngineOnly()
	verifNote("full (state, message type) table for OpenSent/OpenConfirm/Established x {OPEN, UPDATE, NOTIFICATION, KEEPALIVE}, optionally with a KEEPALIVE pipelined right behind it, followed by EOF; received NOTIFICATION code/subcode symbolic with data length symbolic 0..4075; UPDATE body symbolic length 0..4077 (both up to the 4096-octet maximum); remote hold time 90 or 0 (symbolic choice; with 0 no hold / keep-alive timer exists in the session); timers do not fire (C06)")
	state := verifChoose("state", 3)
	typ := uint8(1 + verifChoose("type", 4))
	cfg := symConfig()
	verifAssume(cfg.holdSec >= 3)
	remoteID := verifU32("remoteID")
	var body []byte
	var ncode, nsub uint8
	switch typ {
	case verifMsgOpen:
		verifAssume(verifAnd(remoteID>>24 < 224, verifNot(verifAnd(cfg.localAS == cfg.remoteAS, cfg.localID == remoteID))))
		body = mkOpenBody(cfg.remoteAS, 90, remoteID)
	case verifMsgUpdate:
		body = verifBuf("update", 0, 4077) // up to the largest legal message (4096 octets)
	case verifMsgNotification:
		ncode, nsub = verifU8("ncode"), verifU8("nsub")
		body = append([]byte{ncode, nsub}, verifBuf("ndata", 0, 4075)...) // up to the largest legal message
	}
	conn := newSymConn("c", mkFrame(typ, body), 1) // frame, then EOF
	// optionally another complete message pipelined right behind it (the reader may already hold it
	// when the first one ends the session)
	pipelined := verifChoose("pipelined-keepalive", 2) == 1
	if pipelined {
		conn.addFrame(verifMsgKeepalive, nil)
		verifDelayBound(2) // reader / FSM schedules matter here: all with at most 2 delays
	}
	pl := newMonPlugin()
	p := mkPeer(cfg, pl)
	var f *fsm
	if state == stOpenSent {
		f = fsmInOpenSent(p, conn)
	} else {
		// the remote proposed hold time 90 or 0 (then no hold / keep-alive timer exists): the table does not depend on it
		rh := uint16(90)
		if verifChoose("remote-hold-zero", 2) == 1 {
			rh = 0
		}
		f = fsmNegotiated(p, conn, rh, remoteID)
	}
	to, err := c09Run(f, state)
	verifQuiesce()
	legal := (state == stOpenSent && typ == verifMsgOpen) || (state == stOpenConfirm && typ == verifMsgKeepalive) ||
		(state == stEstablished && (typ == verifMsgKeepalive || typ == verifMsgUpdate))
	switch {
	case legal && state == stOpenSent:
		verifAssert("open-in-opensent-progresses", verifAnd(to == openConfirmState, err == nil))
		verifAssert("open-answered-by-one-keepalive", len(conn.writes) == 1 && isKeepalive(conn.writes[0]))
		verifAssert("conn-stays-open", !conn.closed)
		verifAssert("onopenmessage-once", pl.nOpen == 1)
		verifCover("legal-open")
	case legal && state == stOpenConfirm:
		verifAssert("keepalive-in-openconfirm-establishes", verifAnd(to == establishedState, err == nil))
		verifAssert("nothing-written", len(conn.writes) == 0)
		verifAssert("conn-stays-open", !conn.closed)
		verifCover("legal-keepalive-openconfirm")
	case legal:
		// Established: message processed, then the EOF ends the session silently
		verifAssert("established-ends-idle-on-eof", to == idleState && err != nil)
		verifAssert("eof-is-silent", len(conn.writes) == 0)
		verifAssert("conn-closed", conn.closed)
		if typ == verifMsgUpdate {
			verifAssert("update-delivered-once", len(pl.updates) == 1)
			if len(pl.updates) == 1 {
				verifAssertBytesEq("update-bytes", pl.updates[0], body)
			}
		} else {
			verifAssert("keepalive-not-delivered", len(pl.updates) == 0)
		}
		verifCover("legal-established")
	case typ == verifMsgNotification:
		verifAssert("notification-received-goes-idle", to == idleState)
		verifAssert("no-notification-in-reply", len(conn.writes) == 0)
		verifAssert("conn-closed", conn.closed)
		n, out := c02Notif(err)
		verifAssert("error-marks-received-notification", n != nil && !out)
		if n != nil {
			verifAssert("received-code-subcode-kept", verifAnd(n.Code == ncode, n.Subcode == nsub))
		}
		verifCover("notification-received")
	default:
		// unexpected message: NOTIFICATION(FSM error, state subcode, [type]) then close
		sub := uint8(state + 1)
		verifAssert("unexpected-message-goes-idle", to == idleState)
		verifAssert("one-notification-written", len(conn.writes) == 1)
		if len(conn.writes) == 1 {
			w := conn.writes[0]
			verifAssert("fsm-error-notification", isNotification(w, NOTIF_CODE_FSM_ERR, sub, 1))
			verifAssert("data-is-unexpected-type", verifAt(w, 21) == typ)
		}
		verifAssert("conn-closed", conn.closed)
		verifAssert("error-is-sent-fsm-error", c09IsOutNotifErr(err, NOTIF_CODE_FSM_ERR))
		verifCover("unexpected-message")
	}
	if state == stEstablished {
		verifAssert("onclose-exactly-once", pl.nClose == 1 && pl.nEstab == 1)
		verifAssert("callback-order", !pl.badOrder && !pl.overlap)
	} else {
		verifAssert("no-session-callbacks", pl.nClose == 0 && pl.nEstab == 0)
	}
	if conn.closed {
		verifAssert("reader-stopped", verifGoroutines() == 0 || state == stEstablished)
	}
}

// TCP close / reset with nothing received, in each state: silent end.
func Verif_C09_tcp_failure_is_silent() {
	verifEngineOnly()
	state := verifChoose("state", 3)
	mode := 1 + verifChoose("fin-or-rst", 2)
	cfg := symConfig()
	verifAssume(cfg.holdSec >= 3)
	conn := newSymConn("c", nil, mode)
	pl := newMonPlugin()
	p := mkPeer(cfg, pl)
	var f *fsm
	if state == stOpenSent {
		f = fsmInOpenSent(p, conn)
	} else {
		f = fsmNegotiated(p, conn, 90, 1)
	}
	to, err := c09Run(f, state)
	verifQuiesce()
	verifAssert("tcp-failure-writes-nothing", len(conn.writes) == 0)
	verifAssert("tcp-failure-closes-conn", conn.closed)
	verifAssert("tcp-failure-leaves-session-states", to == idleState || to == activeState)
	n, _ := c02Notif(err)
	verifAssert("tcp-failure-is-not-a-notification-error", err != nil && n == nil)
	if state == stEstablished {
		verifAssert("onclose-exactly-once", pl.nClose == 1 && pl.nEstab == 1)
	}
	verifCover("tcp-failure")
}

// The outbound FSM object is reused across connections: a second session on the same FSM,
// ended by something other than a reader error, must still deliver OnClose exactly once.
func Verif_C09_second_session_on_reused_fsm() {
	verifNote("real peer: first outbound session Established then ended by FIN; the same outbound FSM re-dials (idle-hold timer fired), second session Established, ended by a received NOTIFICATION (symbolic code), an unexpected OPEN (FSM error) or hold-timer expiry: OnClose fires once per session and nothing wedges")
	e := newPenv(false)
	e.dial.outcomes = []dialOutcome{dialOK, dialOK, dialPendingThenFail}
	e.p.start()
	c1 := e.bring(out, stEstablished)
	c1.remoteClose(1)
	verifQuiesce()
	verifAssert("first-session-closed-once", e.pl.nEstab == 1 && e.pl.nClose == 1 && c1.closed)
	f := e.p.fsms[out]
	if f == nil || !verifFireTimer(f.idleHoldTimer) {
		verifAssert("outbound-fsm-waits-for-idle-hold", false)
		return
	}
	c2 := e.bring(out, stEstablished)
	verifAssert("second-session-on-same-fsm", c2 != c1 && e.p.fsms[out] == f && e.pl.nEstab == 2)
	switch verifChoose("end", 3) {
	case 0:
		c2.send(verifMsgNotification, []byte{verifU8("ncode"), 0})
	case 1:
		c2.send(verifMsgOpen, e.openBody())
	case 2:
		verifFireTimer(f.holdTimer)
	}
	verifQuiesce()
	verifAssert("second-session-onclose-exactly-once", e.pl.nClose == 2 && !e.pl.badOrder)
	verifAssert("second-connection-closed", c2.closed)
	verifCover("second-session")
	e.p.stop()
	verifAssert("stop-returns", e.pl.nClose == 2)
}
