//go:build verif

package corebgp

// C16 — UpdateDecoder partitions an UPDATE exactly as its length fields dictate.

const c16MaxA = 5

type c16call struct {
	kind  int // 0 withdrawn, 1 path attribute, 2 nlri
	code  uint8
	flags uint8
	off   int
	n     int
}

type c16rec struct {
	calls []c16call
	// verdicts for C17 (nil for C16)
	verdict func(kind int, idx int) error
	npa     int
}

type c16ref struct {
	aborted        bool // framing fault: no callback at all
	wrl, pal       int
	deliv          [c16MaxA]bool
	typ            [c16MaxA]uint8
	flags          [c16MaxA]uint8
	voff, vlen     [c16MaxA]int
	good           [c16MaxA]bool
	nDeliv         int
	overrun        bool // attribute header/value overruns the block
	abortMP        bool // repeated MP_REACH / MP_UNREACH
	withinBound    bool
	seen1, seen2   bool // ORIGIN / AS_PATH present (for C17)
	seen14         bool
	nlriOff, nlriN int
}

func c16be16(b []byte, off int) int { return int(verifAt(b, off))<<8 | int(verifAt(b, off+1)) }

// c16Reference: RFC 4271 §4.3 / RFC 7606 §3-5 partition over 64-bit offsets (no wrap, no forking).
func c16Reference(b []byte, A int) c16ref {
	var r c16ref
	L := len(b)
	wrl := c16be16(b, 0)
	pal := c16be16(b, 2+wrl)
	r.aborted = verifOr(L < 4, verifOr(L < wrl+4, L < 4+wrl+pal))
	r.wrl, r.pal = wrl, pal
	pos := 4 + wrl
	end := 4 + wrl + pal
	stop, abortMP := false, false
	n := 0
	for s := 0; s < A; s++ {
		active := verifAnd(verifAnd(!stop, !abortMP), pos < end)
		fl := verifAt(b, pos)
		typ := verifAt(b, pos+1)
		ext := fl&0x10 != 0
		hlen := verifIteInt(ext, 4, 3)
		alen := verifIteInt(ext, c16be16(b, pos+2), int(verifAt(b, pos+2)))
		fits := verifAnd(pos+hlen <= end, pos+hlen+alen <= end)
		good := verifAnd(active, fits)
		seenBefore := false
		for t := 0; t < s; t++ {
			seenBefore = verifOr(seenBefore, verifAnd(r.good[t], r.typ[t] == typ))
		}
		isMP := verifOr(typ == PATH_ATTR_MP_REACH_NLRI, typ == PATH_ATTR_MP_UNREACH_NLRI)
		abortMP = verifOr(abortMP, verifAnd(good, verifAnd(seenBefore, isMP)))
		deliv := verifAnd(good, !seenBefore)
		r.good[s], r.deliv[s], r.typ[s], r.flags[s], r.voff[s], r.vlen[s] = good, deliv, typ, fl, pos+hlen, alen
		n = verifIteInt(deliv, n+1, n)
		stop = verifOr(stop, verifAnd(active, !fits))
		pos = verifIteInt(good, pos+hlen+alen, pos)
		r.seen1 = verifOr(r.seen1, verifAnd(good, typ == PATH_ATTR_ORIGIN))
		r.seen2 = verifOr(r.seen2, verifAnd(good, typ == PATH_ATTR_AS_PATH))
		r.seen14 = verifOr(r.seen14, verifAnd(good, typ == PATH_ATTR_MP_REACH_NLRI))
	}
	r.nDeliv, r.overrun, r.abortMP = n, stop, abortMP
	r.withinBound = verifOr(verifOr(stop, abortMP), pos == end)
	r.nlriOff, r.nlriN = end, L-end
	return r
}

func c16Decoder() *UpdateDecoder[*c16rec] {
	return NewUpdateDecoder[*c16rec](
		func(r *c16rec, w []byte) error {
			r.calls = append(r.calls, c16call{kind: 0, n: len(w), off: -2})
			r.calls[len(r.calls)-1].off = c16off(w, r)
			if r.verdict != nil {
				return r.verdict(0, 0)
			}
			return nil
		},
		func(r *c16rec, code uint8, flags PathAttrFlags, v []byte) error {
			r.calls = append(r.calls, c16call{kind: 1, code: code, flags: uint8(flags), n: len(v), off: c16off(v, r)})
			r.npa++
			if r.verdict != nil {
				return r.verdict(1, r.npa-1)
			}
			return nil
		},
		func(r *c16rec, n []byte) error {
			r.calls = append(r.calls, c16call{kind: 2, n: len(n), off: c16off(n, r)})
			if r.verdict != nil {
				return r.verdict(2, 0)
			}
			return nil
		})
}

var c16body []byte

func c16off(s []byte, r *c16rec) int { return verifSliceOff(s, c16body) }

// c16CheckCalls compares the recorded callback sequence with the reference.
// stoppedAfter: number of callbacks after which decoding legitimately stopped because a
// callback returned a session-reset class error (C17); -1 = none.
func c16CheckCalls(rec *c16rec, ref *c16ref, A int) {
	calls := rec.calls
	if len(calls) == 0 {
		return
	}
	// first call: withdrawn routes
	verifAssert("first-callback-is-withdrawn", calls[0].kind == 0)
	verifAssert("withdrawn-length", calls[0].n == ref.wrl)
	verifAssert("withdrawn-offset", verifImplies(calls[0].n > 0, calls[0].off == 2))
	k := 0
	for i := 1; i < len(calls); i++ {
		c := calls[i]
		switch c.kind {
		case 0:
			verifAssert("withdrawn-callback-once", false)
		case 1:
			// the k-th path-attribute callback must be the k-th delivered attribute of the reference
			rank := 0
			matched := false
			for s := 0; s < A; s++ {
				is := verifAnd(ref.deliv[s], rank == k)
				matched = verifOr(matched, is)
				verifAssert("attr-type-code", verifImplies(is, c.code == ref.typ[s]))
				verifAssert("attr-flags-octet", verifImplies(is, c.flags == ref.flags[s]))
				verifAssert("attr-value-length", verifImplies(is, c.n == ref.vlen[s]))
				verifAssert("attr-value-offset", verifImplies(verifAnd(is, c.n > 0), c.off == ref.voff[s]))
				rank = verifIteInt(ref.deliv[s], rank+1, rank)
			}
			verifAssert("attr-callback-has-reference-attribute", matched)
			k++
		case 2:
			verifAssert("nlri-is-last-callback", i == len(calls)-1)
			verifAssert("nlri-not-after-repeated-mp", !ref.abortMP)
			verifAssert("nlri-length", c.n == ref.nlriN)
			verifAssert("nlri-offset", verifImplies(c.n > 0, c.off == ref.nlriOff))
		}
	}
}

// c16Expected is the reference partition computed by an ordinary (forking) walk:
// every decision of RFC 4271 §4.3 / RFC 7606 §3-5 is a branch, so offsets are plain sums.
type c16exp struct {
	aborted bool
	calls   []c16call
	abortMP bool
	overrun bool
	bounded bool
	seen1   bool
	seen2   bool
	seen14  bool
	nlriLen int
	typs    []uint8
}

func c16Expected(b []byte, A int) c16exp {
	var e c16exp
	L := len(b)
	if L < 4 {
		e.aborted = true
		return e
	}
	wrl := c16be16(b, 0)
	if L < wrl+4 {
		e.aborted = true
		return e
	}
	pal := c16be16(b, 2+wrl)
	if L < 4+wrl+pal {
		e.aborted = true
		return e
	}
	e.calls = append(e.calls, c16call{kind: 0, off: 2, n: wrl})
	pos := 4 + wrl
	end := pos + pal
	e.bounded = true
	for s := 0; ; s++ {
		if pos >= end {
			break
		}
		if s == A {
			e.bounded = false // more than A attribute headers: outside the bound
			return e
		}
		fl := verifAt(b, pos)
		hlen := 3
		if fl&0x10 != 0 {
			hlen = 4
		}
		if pos+hlen > end {
			e.overrun = true
			break
		}
		typ := verifAt(b, pos+1)
		alen := int(verifAt(b, pos+2))
		if hlen == 4 {
			alen = c16be16(b, pos+2)
		}
		if pos+hlen+alen > end {
			e.overrun = true
			break
		}
		dup := false
		for _, t := range e.typs {
			if t == typ {
				dup = true
				break
			}
		}
		if dup {
			if typ == PATH_ATTR_MP_REACH_NLRI || typ == PATH_ATTR_MP_UNREACH_NLRI {
				e.abortMP = true
				return e
			}
		} else {
			e.typs = append(e.typs, typ)
			e.calls = append(e.calls, c16call{kind: 1, code: typ, flags: fl, off: pos + hlen, n: alen})
			switch typ {
			case PATH_ATTR_ORIGIN:
				e.seen1 = true
			case PATH_ATTR_AS_PATH:
				e.seen2 = true
			case PATH_ATTR_MP_REACH_NLRI:
				e.seen14 = true
			}
		}
		pos += hlen + alen
	}
	e.nlriLen = L - end
	e.calls = append(e.calls, c16call{kind: 2, off: end, n: L - end})
	return e
}

func c16Compare(rec *c16rec, e *c16exp) {
	verifAssert("callback-count", len(rec.calls) == len(e.calls))
	for i := 0; i < len(rec.calls) && i < len(e.calls); i++ {
		got, want := rec.calls[i], e.calls[i]
		verifAssert("callback-kind-order", got.kind == want.kind)
		if got.kind != want.kind {
			return
		}
		switch got.kind {
		case 0:
			verifAssert("withdrawn-length", got.n == want.n)
			verifAssert("withdrawn-offset", verifImplies(got.n > 0, got.off == want.off))
		case 1:
			verifAssert("attr-type-code", got.code == want.code)
			verifAssert("attr-flags-octet", got.flags == want.flags)
			verifAssert("attr-value-length", got.n == want.n)
			verifAssert("attr-value-offset", verifImplies(got.n > 0, got.off == want.off))
		case 2:
			verifAssert("nlri-length", got.n == want.n)
			verifAssert("nlri-offset", verifImplies(got.n > 0, got.off == want.off))
		}
	}
}

func c16Run(tag string, maxLen, A int, multi bool) {
	verifLoopBound(A + 1)
	b := verifBuf("body", 0, maxLen)
	c16body = b
	e := c16Expected(b, A)
	if !e.aborted && !e.bounded {
		return // bound: at most A attribute headers in the block
	}
	rec := &c16rec{}
	err := c16DecoderWithHistory(b).Decode(rec, b)
	if e.aborted {
		verifAssert("framing-fault-means-no-callback", len(rec.calls) == 0)
		verifAssert("framing-fault-returns-error", err != nil)
		verifCover(tag + "framing-abort")
		return
	}
	c16Compare(rec, &e)
	verifCover(tag + "partitioned")
	if len(e.calls) >= 2 && e.calls[1].kind == 1 {
		verifCoverIf(tag+"ext-len-attr", e.calls[1].flags&0x10 != 0)
	}
	if e.overrun {
		verifCover(tag + "overrun-then-nlri")
	}
	if multi && e.abortMP {
		verifCover(tag + "repeated-mp-aborts")
	}
	if multi && !e.abortMP && len(e.typs) == 1 && len(e.calls) == 3 && e.nlriLen == 0 {
		verifCoverIf(tag+"duplicate-attr-skipped", len(b) >= 10)
	}
}

// lengths up to 2^17+8: the 16-bit length arithmetic is exercised above 65535
func Verif_C16_partition_lengths() {
	A := 1
	if verifTier() >= 1 {
		A = 2
	}
	verifNote("UPDATE body: contents and length (0..2^17+8) symbolic; at most A attribute headers in the attribute block (1 quick / 2 thorough)")
	for _, w := range []string{"framing-abort", "partitioned", "ext-len-attr", "overrun-then-nlri"} {
		verifWant("big-" + w)
	}
	c16Run("big-", 1<<17+8, A, false)
}

// every short body, no structural bound needed below 4+3*A bytes
func Verif_C16_partition_small() {
	n := 12
	if verifTier() >= 1 {
		n = 14
	}
	verifNote("UPDATE body: every byte string of length <= 12 (quick) / 14 (thorough)")
	for _, w := range []string{"framing-abort", "partitioned", "ext-len-attr", "overrun-then-nlri", "repeated-mp-aborts", "duplicate-attr-skipped"} {
		verifWant("small-" + w)
	}
	c16Run("small-", n, 4, true)
}

// ---- a decoder object that has already decoded another UPDATE (C16 / C17: Decode is a function of the body alone) ----

// c16Hist selects what the decoder under test did before: 0 = nothing (fresh decoder).
var c16Hist int

var c16HistBodies = [][]byte{
	nil,
	// 1: walked to the end: ORIGIN, AS_PATH, NEXT_HOP, one NLRI prefix
	{0, 0, 0, 14, 0x40, 1, 1, 0, 0x40, 2, 0, 0x40, 3, 4, 192, 0, 2, 1, 24, 10, 0, 0},
	// 2: ORIGIN, AS_PATH, then MP_REACH_NLRI twice: aborted in the attribute walk
	{0, 0, 0, 13, 0x40, 1, 1, 0, 0x40, 2, 0, 0x80, 14, 0, 0x80, 14, 0},
	// 3: ORIGIN, AS_PATH, MP_UNREACH_NLRI, NEXT_HOP whose callback returns a *Notification: aborted in the attribute walk
	{0, 0, 0, 17, 0x40, 1, 1, 0, 0x40, 2, 0, 0x80, 15, 0, 0x40, 3, 4, 192, 0, 2, 1},
	// 4: ORIGIN, then a truncated attribute header: iteration ends early (treat-as-withdraw)
	{0, 0, 0, 6, 0x40, 1, 1, 0, 0x40, 2},
}

func c16DecoderWithHistory(body []byte) *UpdateDecoder[*c16rec] {
	d := c16Decoder()
	if c16Hist == 0 {
		return d
	}
	hb := c16HistBodies[c16Hist]
	c16body = hb
	hrec := &c16rec{}
	if c16Hist == 3 {
		hrec.verdict = func(kind, idx int) error {
			if kind == 1 && idx == 3 {
				return &Notification{Code: NOTIF_CODE_UPDATE_MESSAGE_ERR, Subcode: NOTIF_SUBCODE_MALFORMED_ATTR_LIST}
			}
			return nil
		}
	}
	herr := d.Decode(hrec, hb)
	verifAssert("history-decode-as-scripted", (herr == nil) == (c16Hist == 1))
	c16body = body
	return d
}

// the same decoder object decodes a second UPDATE: its partition does not depend on the first one
func Verif_C16_decoder_reuse() {
	n := 10
	if verifTier() >= 1 {
		n = 12
	}
	verifNote("a decoder object that has already decoded one UPDATE (4 histories: walked to the end; aborted by a repeated MP_REACH_NLRI after ORIGIN/AS_PATH; aborted by a callback's *Notification after ORIGIN/AS_PATH/MP_UNREACH_NLRI; ended early by a truncated attribute header) decodes every body of length <= 10 (quick) / 12 (thorough): same partition as a fresh decoder")
	c16Hist = 1 + verifChoose("history", 4)
	verifWant("reuse-partitioned")
	c16Run("reuse-", n, 3, true)
}
