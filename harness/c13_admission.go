//go:build verif

package corebgp

import (
	"net"
	"net/netip"
)

// C13 — only connections from configured peers to the configured address are served.

type c13peer struct {
	remote   netip.Addr
	local    netip.Addr
	hasLocal bool
	passive  bool
	p        *peer
}

const (
	c13Fresh = iota
	c13HoldDown
	c13InboundInProgress
	c13OutEstablished
	c13InboundJustEnabled
	c13NumStates
)

func c13v4(name string) netip.Addr {
	var a [4]byte
	for i := range a {
		a[i] = verifU8(name)
	}
	return netip.AddrFrom4(a)
}

func Verif_C13_admission() {
	verifEngineOnly()
	verifDelayBound(0)
	verifNote("Server.Serve (no listener) with 1..2 configured peers (symbolic IPv4 remote addresses, optional symbolic local address, passive or active with the dial left pending); peer 0 in one of {fresh, held down (by a real FSM-error NOTIFICATION on an earlier inbound connection: its first hold-down), inbound in progress, outbound Established, inbound FSM just created (second connection races the FSM's first transition)}; then one inbound connection whose source is a symbolic IPv4/IPv6/invalid address and destination a symbolic IPv4 address (the solver decides which peer, if any, it matches) goes through the real handleInboundConn -> incomingConnection -> manager; address<->string conversions are modelled as mutually inverse injections")
	np := 1 + verifChoose("peers", 2)
	s, _ := NewServer(netip.AddrFrom4([4]byte{10, 0, 0, 1}))
	pl := newMonPlugin()
	var ps []*c13peer
	for k := 0; k < np; k++ {
		cp := &c13peer{remote: c13v4("remote")}
		cp.hasLocal = verifChoose("has-local", 2) == 1
		cp.passive = verifChoose("passive", 2) == 1
		for _, o := range ps {
			verifAssume(o.remote != cp.remote)
		}
		var opts []PeerOption
		if cp.hasLocal {
			cp.local = c13v4("local")
			opts = append(opts, WithLocalAddress(cp.local))
		}
		if cp.passive {
			opts = append(opts, WithPassive())
		}
		err := s.AddPeer(PeerConfig{RemoteAddress: cp.remote, LocalAS: 65000, RemoteAS: 65001}, pl, opts...)
		verifAssert("addpeer-ok", err == nil)
		cp.p = s.peers[cp.remote.String()]
		ps = append(ps, cp)
	}
	state := verifChoose("peer0-state", c13NumStates)
	p0 := ps[0]
	var outConn *symConn
	ds := &dialScript{outcomes: []dialOutcome{dialPendingThenFail}, mk: func(int) *symConn {
		outConn = newStagedConn("out")
		return outConn
	}}
	if state == c13OutEstablished {
		verifAssume(!p0.passive)
		if np == 2 {
			verifAssume(ps[1].passive)
		}
		ds.outcomes = []dialOutcome{dialOK, dialPendingThenFail}
	}
	verifDial = ds
	go s.Serve(nil)
	verifQuiesce()
	var first *symConn
	switch state {
	case c13HoldDown:
		// a real protocol error starts the (first) hold-down: KEEPALIVE in OpenSent -> FSM error NOTIFICATION sent
		first = newStagedConn("first")
		first.remote = p0.remote
		p0.p.incomingConnection(first)
		verifQuiesce()
		first.send(verifMsgKeepalive, nil)
		verifQuiesce()
		verifAssert("protocol-error-ended-first-connection", first.closed && len(first.writes) == 2)
	case c13InboundInProgress:
		first = newStagedConn("first")
		first.remote = p0.remote
		p0.p.incomingConnection(first)
		verifQuiesce()
	case c13InboundJustEnabled:
		first = newStagedConn("first")
		first.remote = p0.remote
		d := 2
		if verifTier() >= 1 {
			d = 3
		}
		verifDelayBound(d)             // schedules of accept path / manager / new FSM with up to d delays
		p0.p.incomingConnection(first) // no quiescence: the next connection races the new FSM's first transition
	case c13OutEstablished:
		outConn.send(verifMsgOpen, mkOpenBody(65001, 90, 0x0a000002))
		outConn.send(verifMsgKeepalive, nil)
		verifQuiesce()
		verifAssert("out-established", pl.nEstab == 1)
	}
	eventsBefore := len(pl.events)
	// the connection under test
	src, _ := c20Addr("src", 3)
	dst := c13v4("dst")
	c := newStagedConn("probe")
	c.remote, c.local = src, dst
	s.handleInboundConn(c)
	verifQuiesce()
	// oracle
	m0 := verifAnd(src == p0.remote, verifOr(!p0.hasLocal, dst == p0.local))
	ok0 := state == c13Fresh
	admit := verifAnd(m0, ok0)
	if np == 2 {
		m1 := verifAnd(src == ps[1].remote, verifOr(!ps[1].hasLocal, dst == ps[1].local))
		admit = verifOr(admit, m1)
	}
	if verifChooseBool(admit) {
		verifAssert("admitted-connection-kept-open", !c.closed)
		verifAssert("admitted-connection-gets-open", c.wroteOpenFirst())
		owner := p0.p
		if !verifChooseBool(m0) {
			owner = ps[1].p
		}
		verifAssert("admitted-to-the-matching-peer", owner.fsms[in] != nil && owner.fsms[in].conn == c)
		verifCover("admitted")
	} else {
		verifAssert("refused-connection-closed", c.closed && c.closes == 1)
		verifAssert("refused-connection-not-a-byte", len(c.writes) == 0)
		if state != c13InboundJustEnabled { // (there the first connection's own GetCapabilities is still to come)
			verifAssert("refused-connection-no-callback", len(pl.events) == eventsBefore)
		} else {
			verifAssert("refused-connection-no-callback", pl.nGetCaps <= 1 && pl.nOpen == 0 && pl.nEstab == 0)
		}
		if first != nil && state != c13HoldDown {
			verifAssert("existing-inbound-unaffected", !first.closed && p0.p.fsms[in] != nil && p0.p.fsms[in].conn == first)
		}
		if state == c13OutEstablished {
			verifAssert("established-session-unaffected", !outConn.closed && pl.nClose == 0)
		}
		verifCover("refused")
		verifCoverIf("refused-known-peer-busy", m0)
		verifCoverIf("refused-wrong-destination", verifAnd(src == p0.remote, !m0))
	}
	s.Close()
	verifAssert("close-closes-probe", c.closed)
}

// Concrete textual neighbours: addresses whose string forms are prefixes / extensions of one another
// (the symbolic harness models address<->string conversion as an injection and cannot see textual bugs).
func Verif_C13_admission_concrete_addresses() {
	verifEngineOnly()
	verifDelayBound(0)
	verifNote("concrete addresses with real textual forms (netip.Addr.String / ParseAddr / SplitHostPort executed on concrete strings): peer 127.0.0.2 with local address 127.0.0.1 (or none); probe source from {127.0.0.2, 127.0.0.20, 127.0.0.200, 27.0.0.2, ::ffff:127.0.0.2} and destination from {127.0.0.1, 127.0.0.10, 127.0.0.100, 127.0.0.11, 27.0.0.1}: all combinations")
	s, _ := NewServer(netip.MustParseAddr("10.0.0.1"))
	pl := newMonPlugin()
	remote, local := netip.MustParseAddr("127.0.0.2"), netip.MustParseAddr("127.0.0.1")
	hasLocal := verifChoose("has-local", 2) == 1
	opts := []PeerOption{WithPassive()}
	if hasLocal {
		opts = append(opts, WithLocalAddress(local))
	}
	verifAssert("addpeer-ok", s.AddPeer(PeerConfig{RemoteAddress: remote, LocalAS: 65000, RemoteAS: 65001}, pl, opts...) == nil)
	go s.Serve(nil)
	verifQuiesce()
	srcs := []string{"127.0.0.2", "127.0.0.20", "127.0.0.200", "27.0.0.2", "::ffff:127.0.0.2"}
	dsts := []string{"127.0.0.1", "127.0.0.10", "127.0.0.100", "127.0.0.11", "27.0.0.1"}
	src := netip.MustParseAddr(srcs[verifChoose("src", len(srcs))])
	dst := netip.MustParseAddr(dsts[verifChoose("dst", len(dsts))])
	c := newStagedConn("probe")
	c.remote, c.local = src, dst
	s.handleInboundConn(c)
	verifQuiesce()
	admit := src == remote && (!hasLocal || dst == local)
	if admit {
		verifAssert("admitted-connection-gets-open", !c.closed && c.wroteOpenFirst())
		verifCover("concrete-admitted")
	} else {
		verifAssert("refused-connection-closed-without-a-byte", c.closed && len(c.writes) == 0 && pl.nGetCaps == 0)
		verifCover("concrete-refused")
	}
	s.Close()
}

// Every listener handed to Serve is served: a connection arriving on any of them is admitted or
// refused by the same rule (an accept loop bound to the wrong listener would leave it unanswered).
func Verif_C13_every_listener_is_served() {
	verifEngineOnly()
	verifDelayBound(0)
	verifNote("Server.Serve with three listeners and one passive peer; one connection from the configured remote or from another source (symbolic choice) is offered to a symbolically chosen listener: it must be accepted from that listener and admitted (OPEN sent) or closed without a byte; a second connection on another listener is treated likewise")
	s, _ := NewServer(netip.MustParseAddr("10.0.0.1"))
	pl := newMonPlugin()
	remote := netip.MustParseAddr("192.0.2.1")
	verifAssert("addpeer-ok", s.AddPeer(PeerConfig{RemoteAddress: remote, LocalAS: 65000, RemoteAS: 65001}, pl, WithPassive()) == nil)
	ls := []*symListener{newSymListener(), newSymListener(), newSymListener()}
	go s.Serve([]net.Listener{ls[0], ls[1], ls[2]})
	verifQuiesce()
	k := verifChoose("listener", 3)
	known := verifChoose("source-configured", 2) == 1
	c := newStagedConn("probe")
	c.local = netip.MustParseAddr("10.0.0.1")
	c.remote = netip.MustParseAddr("198.51.100.7")
	if known {
		c.remote = remote
	}
	select {
	case ls[k].ch <- c:
	default:
		verifAssert("listener-is-being-accepted-on", false)
		return
	}
	verifQuiesce()
	if known {
		verifAssert("admitted-connection-gets-open", !c.closed && c.wroteOpenFirst())
	} else {
		verifAssert("refused-connection-closed-without-a-byte", c.closed && len(c.writes) == 0 && pl.nGetCaps == 0)
	}
	// a stranger on another listener is refused as well
	k2 := (k + 1 + verifChoose("other-listener", 2)) % 3
	d := newStagedConn("probe2")
	d.local = netip.MustParseAddr("10.0.0.1")
	d.remote = netip.MustParseAddr("198.51.100.8")
	select {
	case ls[k2].ch <- d:
	default:
		verifAssert("other-listener-is-being-accepted-on", false)
		return
	}
	verifQuiesce()
	verifAssert("second-refused-connection-closed-without-a-byte", d.closed && len(d.writes) == 0)
	verifCover("every-listener")
	s.Close()
}
