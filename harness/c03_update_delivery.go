//go:build verif

package corebgp

// C03 — inbound UPDATEs reach the handler exactly once, in order, byte-exact.

func Verif_C03_delivery() {
	verifEngineOnly()
	K := 2
	if verifTier() >= 1 {
		K = 3
	}
	verifNote("Established: stream of K frames (2 quick / 3 thorough), each symbolically UPDATE (body length symbolic 0..4077) or KEEPALIVE, then EOF; the first 2 Read calls return a symbolic number of bytes (every segmentation incl. reads ending inside a header); the handler returns a symbolic Notification at a symbolically chosen call or never; negotiated hold time 90 s or 0 (symbolic)")
	cfg := concreteConfig()
	conn := newSymConn("c", nil, 1)
	var bodies [][]byte
	for i := 0; i < K; i++ {
		if verifChoose("frame", 2) == 0 {
			b := verifBuf("update", 0, 4077)
			bodies = append(bodies, b)
			conn.addFrame(verifMsgUpdate, b)
		} else {
			conn.addFrame(verifMsgKeepalive, nil)
		}
	}
	conn.shortReads = 2 // (3 symbolic read sizes with 3 frames and both hold times left too little margin in the thorough budget)
	pl := newMonPlugin()
	pl.handlerNotifAt = verifChoose("notif-at", K+1) - 1
	ndata := verifBuf("ndata", 0, 4)
	pl.handlerNotif = &Notification{Code: verifU8("ncode"), Subcode: verifU8("nsub"), Data: ndata}
	p := mkPeer(cfg, pl)
	// the negotiated hold time is 90 s or 0 (no hold / keep-alive timers): delivery must not depend on it
	hold := uint16(90)
	if verifChoose("remote-hold-zero", 2) == 1 {
		hold = 0
	}
	f := fsmNegotiated(p, conn, hold, 1)
	to, _ := f.established()
	verifQuiesce()
	want := len(bodies)
	stopped := pl.handlerNotifAt >= 0 && pl.handlerNotifAt < len(bodies)
	if stopped {
		want = pl.handlerNotifAt + 1
	}
	verifAssert("each-update-delivered-exactly-once", len(pl.updates) == want)
	for j := 0; j < len(pl.updates) && j < len(bodies); j++ {
		verifAssertBytesEq("update-byte-exact-in-order", pl.updates[j], bodies[j])
	}
	verifAssert("no-delivery-outside-session", !pl.badOrder && !pl.overlap)
	verifAssert("onclose-once", pl.nEstab == 1 && pl.nClose == 1)
	verifAssert("session-ended-idle", to == idleState && conn.closed)
	if stopped {
		verifAssert("handler-notification-is-the-only-write", len(conn.writes) == 1)
		if len(conn.writes) == 1 {
			w := conn.writes[0]
			verifAssert("handler-notification-verbatim", isNotification(w, pl.handlerNotif.Code, pl.handlerNotif.Subcode, len(ndata)))
			verifAssume(len(w) >= 21)
			verifAssertBytesEq("handler-notification-data", w[21:], ndata)
		}
		verifCover("handler-notification")
	} else {
		verifAssert("eof-is-silent", len(conn.writes) == 0)
		verifCover("all-delivered")
	}
	verifCoverIf("two-updates", len(pl.updates) == 2)
}

// schedule-focused variant: small concrete frames, all interleavings of reader / FSM /
// keep-alive manager within the delay bound (a reader that runs ahead of the FSM, an
// error that overtakes queued messages, ...)
func Verif_C03_delivery_schedules() {
	verifEngineOnly()
	d := 2
	if verifTier() >= 1 {
		d = 3
	}
	verifDelayBound(d)
	verifNote("schedule variant: 3 concrete UPDATE frames + KEEPALIVE then a symbolically chosen end (EOF, reset, corrupted header); all schedules of reader / FSM / keep-alive manager goroutines with at most 2 (quick) / 3 (thorough) delays; select arms ready together are always all explored")
	cfg := concreteConfig()
	end := verifChoose("end", 3)
	mode := 1
	if end == 1 {
		mode = 2
	}
	conn := newSymConn("c", nil, mode)
	bodies := [][]byte{{0, 0, 0, 0}, {0, 0, 0, 1, 9}, {0, 0, 0, 0}}
	conn.addFrame(verifMsgUpdate, bodies[0])
	conn.addFrame(verifMsgKeepalive, nil)
	conn.addFrame(verifMsgUpdate, bodies[1])
	conn.addFrame(verifMsgUpdate, bodies[2])
	if end == 2 {
		bad := mkFrame(verifMsgKeepalive, nil)
		bad[0] = 0
		conn.addBytes(bad)
	}
	pl := newMonPlugin()
	pl.yieldInCallbacks = true
	p := mkPeer(cfg, pl)
	f := fsmNegotiated(p, conn, 90, 1)
	to, _ := f.established()
	verifQuiesce()
	verifAssert("each-update-delivered-exactly-once", len(pl.updates) == 3)
	for j := 0; j < len(pl.updates) && j < 3; j++ {
		verifAssertBytesEq("update-byte-exact-in-order", pl.updates[j], bodies[j])
	}
	verifAssert("no-delivery-outside-session", !pl.badOrder && !pl.overlap)
	verifAssert("onclose-once", pl.nEstab == 1 && pl.nClose == 1)
	verifAssert("session-ended-idle", to == idleState && conn.closed)
	verifCover("schedules")
}

// the delivery contract holds for every session of a peer, not only the first one on an FSM object
func Verif_C03_second_session_on_reused_fsm() {
	verifNote("real peer: first outbound session Established, one UPDATE (symbolic body 0..16 bytes) delivered, ended by FIN; the same outbound FSM re-dials (idle-hold timer fired); second session Established: UPDATE (symbolic body) delivered, the handler returns a Notification (symbolic code/subcode, 0..3 data bytes) for it, a further UPDATE already on the wire is not delivered; NOTIFICATION verbatim, OnClose once per session, nothing wedges (peer.stop returns)")
	e := newPenv(false)
	e.dial.outcomes = []dialOutcome{dialOK, dialOK, dialPendingThenFail}
	b1, b2, b3 := verifBuf("u1", 0, 16), verifBuf("u2", 0, 16), verifBuf("u3", 0, 16)
	nd := verifBuf("ndata", 0, 3)
	e.pl.handlerNotifAt = 1
	e.pl.handlerNotif = &Notification{Code: verifU8("ncode"), Subcode: verifU8("nsub"), Data: nd}
	e.p.start()
	c1 := e.bring(out, stEstablished)
	c1.send(verifMsgUpdate, b1)
	verifQuiesce()
	c1.remoteClose(1)
	verifQuiesce()
	verifAssert("first-session-one-update-and-closed", len(e.pl.updates) == 1 && e.pl.nEstab == 1 && e.pl.nClose == 1 && c1.closed)
	f := e.p.fsms[out]
	if f == nil || !verifFireTimer(f.idleHoldTimer) {
		verifAssert("outbound-fsm-waits-for-idle-hold", false)
		return
	}
	c2 := e.bring(out, stEstablished)
	verifAssert("second-session-on-same-fsm", c2 != c1 && e.p.fsms[out] == f && e.pl.nEstab == 2)
	if c2 == c1 {
		return
	}
	c2.writes = nil
	c2.send(verifMsgUpdate, b2)
	c2.send(verifMsgUpdate, b3)
	verifQuiesce()
	verifAssert("second-session-update-delivered-once-then-stop", len(e.pl.updates) == 2)
	if len(e.pl.updates) == 2 {
		verifAssertBytesEq("first-session-update-bytes", e.pl.updates[0], b1)
		verifAssertBytesEq("second-session-update-bytes", e.pl.updates[1], b2)
	}
	verifAssert("handler-notification-single-write", len(c2.writes) == 1)
	if len(c2.writes) == 1 {
		w := c2.writes[0]
		verifAssert("handler-notification-verbatim", isNotification(w, e.pl.handlerNotif.Code, e.pl.handlerNotif.Subcode, len(nd)))
		verifAssume(len(w) >= 21)
		verifAssertBytesEq("handler-notification-data", w[21:], nd)
	}
	verifAssert("second-session-onclose-exactly-once", e.pl.nClose == 2 && !e.pl.badOrder && !e.pl.overlap)
	verifAssert("second-connection-closed", c2.closed)
	verifCover("second-session-handler-notification")
	e.p.stop()
	verifAssert("stop-returns", e.pl.nClose == 2)
}
