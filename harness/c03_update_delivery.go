//go:build verif

package corebgp

// C03 — inbound UPDATEs reach the handler exactly once, in order, byte-exact.

func Verif_C03_delivery() {
	verifEngineOnly()
	K := 2
	if verifTier() >= 1 {
		K = 3
	}
	verifNote("Established: stream of K frames (2 quick / 3 thorough), each symbolically UPDATE (body length symbolic 0..4077) or KEEPALIVE, then EOF; the first 2 (quick) / 3 (thorough) Read calls return a symbolic number of bytes (every segmentation incl. reads ending inside a header); the handler returns a symbolic Notification at a symbolically chosen call or never")
	cfg := concreteConfig()
	conn := newSymConn("c", nil, 1)
	var bodies [][]byte
	for i := 0; i < K; i++ {
		if verifChoose("frame", 2) == 0 {
			b := verifBuf("update", 0, 4077)
			bodies = append(bodies, b)
			conn.addFrame(updateMessageType, b)
		} else {
			conn.addFrame(keepAliveMessageType, nil)
		}
	}
	conn.shortReads = K
	pl := newMonPlugin()
	pl.handlerNotifAt = verifChoose("notif-at", K+1) - 1
	ndata := verifBuf("ndata", 0, 4)
	pl.handlerNotif = &Notification{Code: verifU8("ncode"), Subcode: verifU8("nsub"), Data: ndata}
	p := mkPeer(cfg, pl)
	f := fsmNegotiated(p, conn, 90, 1)
	to, _ := f.established()
	verifQuiesce()
	want := len(bodies)
	stopped := pl.handlerNotifAt >= 0 && pl.handlerNotifAt < len(bodies)
	if stopped {
		want = pl.handlerNotifAt + 1
	}
	verifAssert("each-update-delivered-exactly-once", len(pl.updates) == want)
	for j := 0; j < len(pl.updates) && j < len(bodies); j++ {
		verifAssertBytesEq("update-byte-exact-in-order", pl.updates[j], bodies[j])
	}
	verifAssert("no-delivery-outside-session", !pl.badOrder && !pl.overlap)
	verifAssert("onclose-once", pl.nEstab == 1 && pl.nClose == 1)
	verifAssert("session-ended-idle", to == idleState && conn.closed)
	if stopped {
		verifAssert("handler-notification-is-the-only-write", len(conn.writes) == 1)
		if len(conn.writes) == 1 {
			w := conn.writes[0]
			verifAssert("handler-notification-verbatim", isNotification(w, pl.handlerNotif.Code, pl.handlerNotif.Subcode, len(ndata)))
			verifAssume(len(w) >= 21)
			verifAssertBytesEq("handler-notification-data", w[21:], ndata)
		}
		verifCover("handler-notification")
	} else {
		verifAssert("eof-is-silent", len(conn.writes) == 0)
		verifCover("all-delivered")
	}
	verifCoverIf("two-updates", len(pl.updates) == 2)
}

// schedule-focused variant: small concrete frames, all interleavings of reader / FSM /
// keep-alive manager within the delay bound (a reader that runs ahead of the FSM, an
// error that overtakes queued messages, ...)
func Verif_C03_delivery_schedules() {
	verifEngineOnly()
	d := 2
	if verifTier() >= 1 {
		d = 3
	}
	verifDelayBound(d)
	verifNote("schedule variant: 3 concrete UPDATE frames + KEEPALIVE then a symbolically chosen end (EOF, reset, corrupted header); all schedules of reader / FSM / keep-alive manager goroutines with at most 2 (quick) / 3 (thorough) delays; select arms ready together are always all explored")
	cfg := concreteConfig()
	end := verifChoose("end", 3)
	mode := 1
	if end == 1 {
		mode = 2
	}
	conn := newSymConn("c", nil, mode)
	bodies := [][]byte{{0, 0, 0, 0}, {0, 0, 0, 1, 9}, {0, 0, 0, 0}}
	conn.addFrame(updateMessageType, bodies[0])
	conn.addFrame(keepAliveMessageType, nil)
	conn.addFrame(updateMessageType, bodies[1])
	conn.addFrame(updateMessageType, bodies[2])
	if end == 2 {
		bad := mkFrame(keepAliveMessageType, nil)
		bad[0] = 0
		conn.addBytes(bad)
	}
	pl := newMonPlugin()
	pl.yieldInCallbacks = true
	p := mkPeer(cfg, pl)
	f := fsmNegotiated(p, conn, 90, 1)
	to, _ := f.established()
	verifQuiesce()
	verifAssert("each-update-delivered-exactly-once", len(pl.updates) == 3)
	for j := 0; j < len(pl.updates) && j < 3; j++ {
		verifAssertBytesEq("update-byte-exact-in-order", pl.updates[j], bodies[j])
	}
	verifAssert("no-delivery-outside-session", !pl.badOrder && !pl.overlap)
	verifAssert("onclose-once", pl.nEstab == 1 && pl.nClose == 1)
	verifAssert("session-ended-idle", to == idleState && conn.closed)
	verifCover("schedules")
}
