//go:build verif

package corebgp

// T00 — engine self-test: both obligations below MUST be reported as violations
// (used by `vcheck selftest`; not a property check).

func Verif_T00_selftest_violation() {
	b := verifBuf("val", 0, 64)
	x := verifU16("x")
	verifAssert("selftest-false", verifOr(len(b) != 7, verifOr(verifAt(b, 3) != 0x42, x != 777)))
	var o OriginPathAttr
	_ = o.Decode(PathAttrFlags(0x40), b[2:]) // slice bounds obligation when len < 2
}
