//go:build verif

package corebgp

// T00 — engine self-test: both obligations below MUST be reported as violations
// (used by `vcheck selftest`; not a property check).

func Verif_T00_selftest_violation() {
	b := verifBuf("val", 0, 64)
	x := verifU16("x")
	verifAssert("selftest-false", verifOr(len(b) != 7, verifOr(verifAt(b, 3) != 0x42, x != 777)))
	var o OriginPathAttr
	_ = o.Decode(PathAttrFlags(0x40), b[2:]) // slice bounds obligation when len < 2
}

// engine-only replay path (concrete re-execution of the SSA): fixed-length buffer + a buffer of
// symbolic length + a bounded integer + a goroutine; MUST be reported as a violation too.
func Verif_T00_selftest_engine_only() {
	verifEngineOnly()
	h := verifBuf("hdr", 4, 4)
	t := verifBuf("tail", 0, 8)
	n := verifRange("n", 1, 4)
	ch := make(chan int, 1)
	go func() { ch <- int(h[0]) + len(t) + n }()
	v := <-ch
	verifAssert("selftest-engine-only", v != 0x20+5+3 || h[3] != 9 || n != 3)
}
