//go:build verif

package corebgp

import "time"

// C11 — reconnection liveness and retry pacing after non-damping faults.
//
// Stated on the timer contract (see C06): after a fault the outbound FSM may only be
// waiting on the idle-hold timer (armed with exactly the configured idle-hold time) and/or
// the connect-retry timer (armed with exactly the configured connect-retry time), each at
// most once before the next dial; no dial is issued without one of them expiring.

const (
	c11Refuse = iota
	c11Stall
	c11FinOpenSent
	c11RstOpenSent
	c11FinOpenConfirm
	c11FinEstablished
	c11CeaseOpenSent
	c11CeaseOpenConfirm
	c11CeaseEstablished
	c11CeaseThenFinOpenSent // a Cease with the FIN right behind it (the reader sees EOF while the FSM is already tearing down)
	c11CeaseThenFinOpenConfirm
	c11CeaseThenFinEstablished
	c11WriteFailsOpenSent    // the reset is seen as a failed write: answering the remote's OPEN (KEEPALIVE) fails
	c11WriteFailsEstablished // a keep-alive cannot be written any more
	c11NumFaults
)

func c11Env(passive bool) (*penv, time.Duration, time.Duration) {
	e := newPenv(passive)
	iv, rv := verifU32("idleHold"), verifU32("connectRetry")
	// symbolic durations are non-zero (a timer with a constant zero duration fires at once in the engine's
	// timer model; zero idle-hold time is exercised concretely in Verif_C04_teardown_and_reconnect)
	verifAssume(verifAnd(iv >= 1, rv >= 1))
	idle := time.Duration(iv) * time.Millisecond
	retry := time.Duration(rv) * time.Millisecond
	e.p.options.idleHoldTime = idle
	e.p.options.connectRetryTime = retry
	return e, idle, retry
}

// waitForDial fires the timers the outbound FSM is waiting on until a new dial is issued;
// returns how many expiries were needed and asserts their durations.
func c11WaitForDial(e *penv, idle, retry time.Duration, attemptsBefore int) int {
	fires := 0
	for k := 0; k < 3; k++ {
		verifQuiesce()
		if e.dial.attempts > attemptsBefore {
			return fires
		}
		f := e.p.fsms[out]
		if f == nil {
			verifAssert("outbound-fsm-exists-after-fault", false)
			return fires
		}
		switch {
		case e.p.fsmState[out] == idleState && f.idleHoldTimer != nil && verifTimerArmed(f.idleHoldTimer):
			verifAssert("idle-hold-timer-has-configured-duration", verifTimerDur(f.idleHoldTimer) == idle)
			verifFireTimer(f.idleHoldTimer)
		case f.connectRetryTimer != nil && verifTimerArmed(f.connectRetryTimer):
			verifAssert("connect-retry-timer-has-configured-duration", verifTimerDur(f.connectRetryTimer) == retry)
			verifFireTimer(f.connectRetryTimer)
		case f.idleHoldTimer != nil && verifTimerArmed(f.idleHoldTimer):
			verifAssert("idle-hold-timer-has-configured-duration", verifTimerDur(f.idleHoldTimer) == idle)
			verifFireTimer(f.idleHoldTimer)
		default:
			verifAssert("peer-is-waiting-on-a-retry-timer", false)
			return fires
		}
		fires++
	}
	verifQuiesce()
	return fires
}

func Verif_C11_fault_then_recover() {
	verifNote("active peer, idle-hold and connect-retry times symbolic (32-bit milliseconds); one fault from {dial refused, dial stalled past connect-retry, FIN/RST in OpenSent, FIN in OpenConfirm/Established, Cease received in OpenSent/OpenConfirm/Established (alone, or with the FIN right behind it), a reset seen as a failed write (of the KEEPALIVE answering the OPEN in OpenSent; of a periodic KEEPALIVE in Established)}, optionally preceded by another fault (sequences of 1..2 faults); then a well-behaved remote; base schedule; time = timer contract (armed durations), not simulated")
	e, idle, retry := c11Env(false)
	nf := 1 + verifChoose("faults", 2)
	e.dial.outcomes = nil
	var kinds []int
	for i := 0; i < nf; i++ {
		k := verifChoose("fault", c11NumFaults)
		kinds = append(kinds, k)
		switch k {
		case c11Refuse:
			e.dial.outcomes = append(e.dial.outcomes, dialRefused)
		case c11Stall:
			e.dial.outcomes = append(e.dial.outcomes, dialPendingThenFail)
		default:
			e.dial.outcomes = append(e.dial.outcomes, dialOK)
		}
	}
	e.dial.outcomes = append(e.dial.outcomes, dialOK)
	e.p.start()
	for i, k := range kinds {
		verifQuiesce()
		verifAssert("one-dial-per-attempt", e.dial.attempts == i+1)
		attempts := e.dial.attempts
		var c *symConn
		switch k {
		case c11Refuse, c11Stall:
		case c11FinOpenSent, c11RstOpenSent, c11CeaseOpenSent, c11WriteFailsOpenSent, c11CeaseThenFinOpenSent:
			c = e.bring(out, stOpenSent)
		case c11FinOpenConfirm, c11CeaseOpenConfirm, c11CeaseThenFinOpenConfirm:
			c = e.bring(out, stOpenConfirm)
		default:
			c = e.bring(out, stEstablished)
		}
		switch k {
		case c11FinOpenSent, c11FinOpenConfirm, c11FinEstablished:
			c.remoteClose(1)
		case c11RstOpenSent:
			c.remoteClose(2)
		case c11CeaseOpenSent, c11CeaseOpenConfirm, c11CeaseEstablished:
			c.send(verifMsgNotification, []byte{NOTIF_CODE_CEASE, verifU8("cease-subcode")})
		case c11CeaseThenFinOpenSent, c11CeaseThenFinOpenConfirm, c11CeaseThenFinEstablished:
			c.chunks = append(c.chunks, mkFrame(verifMsgNotification, []byte{NOTIF_CODE_CEASE, 0}))
			c.endMode = 1
			verifDelayBound(2) // reader (EOF in hand) against the FSM that is tearing down: all schedules with at most 2 delays
			c.deliver(len(c.chunks), true)
			verifQuiesce()
			verifDelayBound(0)
		case c11WriteFailsOpenSent:
			c.failWrites = true
			c.send(verifMsgOpen, e.openBody())
		case c11WriteFailsEstablished:
			c.failWrites = true
			if f := e.p.fsms[out]; f != nil && f.keepAliveTimer != nil {
				verifFireTimer(f.keepAliveTimer)
			}
		}
		verifQuiesce()
		if c != nil {
			verifAssert("faulted-connection-closed", c.closed)
		}
		verifAssert("non-damping-fault-no-hold-down", !e.p.inHoldDown && e.p.startupDelay == 0)
		verifAssert("no-redial-before-a-timer-expires", e.dial.attempts == attempts)
		fires := c11WaitForDial(e, idle, retry, attempts)
		verifAssert("redial-after-at-most-idle-hold-plus-connect-retry", fires <= 2 && e.dial.attempts == attempts+1)
		if k == c11Stall {
			verifCover("stalled-dial-abandoned-and-retried")
		}
	}
	// well-behaved remote: the session establishes
	est := e.pl.nEstab
	c := e.bring(out, stEstablished)
	verifAssert("session-establishes-after-faults", c != nil && e.pl.nEstab == est+1 && !c.closed)
	verifCover("recovered")
	e.p.stop()
}

// while every attempt is refused: one dial per idle-hold expiry, never back to back
func Verif_C11_refused_pacing() {
	N := 3
	if verifTier() >= 1 {
		N = 5
	}
	verifNote("every dial refused, N consecutive attempts (3 quick / 5 thorough): between two dials the FSM waits on the idle-hold timer armed with exactly the configured (symbolic) idle-hold time; no dial without its expiry")
	e, idle, _ := c11Env(false)
	e.dial.outcomes = []dialOutcome{dialRefused}
	e.p.start()
	for i := 0; i < N; i++ {
		verifQuiesce()
		verifAssert("exactly-one-dial-per-cycle", e.dial.attempts == i+1)
		f := e.p.fsms[out]
		if f == nil {
			verifAssert("outbound-fsm-present", false)
			return
		}
		verifAssert("refused-peer-waits-in-idle", e.p.fsmState[out] == idleState)
		verifAssert("idle-hold-timer-armed-with-idle-hold-time", verifTimerArmed(f.idleHoldTimer) && verifTimerDur(f.idleHoldTimer) == idle)
		verifAssert("connect-retry-timer-stopped", f.connectRetryTimer == nil || !verifTimerArmed(f.connectRetryTimer))
		verifFireTimer(f.idleHoldTimer)
	}
	verifCover("paced")
	e.p.stop()
}

// after an inbound session ends the peer resumes dialling at once and accepts a new inbound connection; a passive peer never dials
func Verif_C11_inbound_ends_and_passive() {
	verifNote("inbound session brought to OpenSent/OpenConfirm/Established then ended by FIN / RST / Cease (symbolic); active peer: the outbound FSM exists and dials without waiting for any non-zero timer, and a new inbound connection is accepted; passive peer: dial counter stays 0 throughout")
	passive := verifChoose("passive", 2) == 1
	e, _, _ := c11Env(passive)
	e.dial.outcomes = []dialOutcome{dialPendingThenFail}
	e.p.start()
	verifQuiesce()
	state := verifChoose("state", 3)
	ci := e.bring(in, state)
	if !passive && state == stEstablished {
		verifAssert("outbound-disabled-while-inbound-established", e.p.fsms[out] == nil)
	}
	attempts := e.dial.attempts
	switch verifChoose("end", 3) {
	case 0:
		ci.remoteClose(1)
	case 1:
		ci.remoteClose(2)
	case 2:
		ci.send(verifMsgNotification, []byte{NOTIF_CODE_CEASE, 0})
	}
	verifQuiesce()
	verifAssert("inbound-connection-closed", ci.closed)
	verifAssert("inbound-slot-free", e.p.fsms[in] == nil)
	if passive {
		verifAssert("passive-peer-never-dials", e.dial.attempts == 0 && e.p.fsms[out] == nil)
	} else {
		verifAssert("outbound-fsm-running", e.p.fsms[out] != nil)
		if state == stEstablished {
			// the outbound FSM was re-created: its first dial needs no waiting (idle-hold timer of a new FSM is 0)
			verifAssert("resumes-dialling-at-once", e.dial.attempts == attempts+1)
		} else {
			verifAssert("keeps-dialling", e.dial.attempts >= 1)
		}
	}
	c2 := e.inject()
	verifAssert("new-inbound-accepted", !c2.closed && c2.wroteOpenFirst())
	verifCover("inbound-ended")
	e.p.stop()
	if passive {
		verifAssert("passive-peer-never-dialled", e.dial.attempts == 0)
	}
}

// after an inbound session has ended the peer does not only redial: the redial can establish
func Verif_C11_outbound_establishes_after_inbound_session() {
	verifNote("active peer whose dial stays pending; an inbound connection is brought to OpenSent/OpenConfirm/Established and ended by FIN / RST / Cease (symbolic); from then on the remote accepts connections: after at most 2 timer expiries (configured durations) a dial is issued, and the handshake on that outbound connection reaches Established")
	e, idle, retry := c11Env(false)
	e.dial.outcomes = []dialOutcome{dialPendingThenFail}
	e.p.start()
	verifQuiesce()
	state := verifChoose("state", 3)
	ci := e.bring(in, state)
	attempts := e.dial.attempts
	nOut := e.nOut
	e.dial.outcomes = []dialOutcome{dialOK}
	switch verifChoose("end", 3) {
	case 0:
		ci.remoteClose(1)
	case 1:
		ci.remoteClose(2)
	case 2:
		ci.send(verifMsgNotification, []byte{NOTIF_CODE_CEASE, 0})
	}
	verifQuiesce()
	verifAssert("inbound-connection-closed", ci.closed)
	estab := e.pl.nEstab
	if e.nOut == nOut {
		fires := c11WaitForDial(e, idle, retry, attempts)
		verifAssert("redial-within-two-expiries", fires <= 2 && e.dial.attempts > attempts)
	}
	verifAssert("outbound-connection-made", e.nOut == nOut+1)
	if e.nOut != nOut+1 {
		return
	}
	co := e.bring(out, stEstablished)
	verifAssert("outbound-session-established", e.pl.nEstab == estab+1 && !co.closed && e.p.fsmState[out] == establishedState)
	verifCover("re-established-outbound")
	e.p.stop()
}

// C02 on the same scenario: the valid OPEN answering the redial after an inbound session ended must be accepted
// (acceptability of an OPEN does not depend on what happened on the peer's other connection before)
func Verif_C02_valid_open_accepted_on_redial_after_inbound_session() {
	Verif_C11_outbound_establishes_after_inbound_session()
}

// C20 on the inbound-ends scenario: a peer added as passive never dials, whatever its inbound connections do
func Verif_C20_passive_peer_never_dials() { Verif_C11_inbound_ends_and_passive() }

// C09 on the same scenario: an OPEN received in OpenSent is legal progress also after an inbound session of the peer ended
func Verif_C09_open_in_opensent_progresses_after_inbound_session() {
	Verif_C11_outbound_establishes_after_inbound_session()
}
