//go:build verif

package corebgp

// C04 — outbound byte stream is whole well-formed messages; WriteUpdate contract.

// (a) prependHeader for every body that fits a message
func Verif_C04_prepend_header() {
	m := verifBuf("body", 0, 4077)
	t := verifU8("type")
	enc := prependHeader(m, t)
	c15HeaderOK("hdr", enc, t, len(m))
	verifAssume(len(enc) >= 19)
	verifAssertBytesEq("body-follows-header", enc[19:], m)
	ln := int(verifAt(enc, 16))<<8 | int(verifAt(enc, 17))
	verifAssert("length-within-19-4096", verifAnd(ln >= 19, ln <= 4096))
	verifCoverIf("max-body", len(m) == 4077)
	verifCoverIf("empty-body", len(m) == 0)
}

type c04frame struct {
	typ  uint8
	body []byte
}

// c04Parse splits the concatenation of all writes into frames (concrete contents in these harnesses).
func c04Parse(writes [][]byte) (frames []c04frame, whole bool) {
	var out []byte
	for _, w := range writes {
		out = append(out, w...)
	}
	pos := 0
	for pos < len(out) {
		if pos+19 > len(out) {
			return frames, false
		}
		for i := 0; i < 16; i++ {
			if out[pos+i] != 0xFF {
				return frames, false
			}
		}
		n := int(out[pos+16])<<8 | int(out[pos+17])
		typ := out[pos+18]
		if n < 19 || n > 4096 || typ < 1 || typ > 4 || pos+n > len(out) {
			return frames, false
		}
		frames = append(frames, c04frame{typ, out[pos+19 : pos+n]})
		pos += n
	}
	return frames, true
}

func c04SameBytes(a, b []byte) bool {
	if len(a) != len(b) {
		return false
	}
	for i := range a {
		if a[i] != b[i] {
			return false
		}
	}
	return true
}

func c04Body(writer, call int) []byte {
	// distinct, self-describing bodies of different lengths
	n := 4 + 3*writer + call
	b := make([]byte, n)
	for i := range b {
		b[i] = byte(0x10*(writer+1) + call)
	}
	return b
}

func Verif_C04_concurrent_writers() {
	verifEngineOnly()
	W, C, d := 2, 2, 2
	if verifTier() >= 1 {
		W, C, d = 3, 2, 2
	}
	verifNote("real peer brought to Established (outbound), then 2 (quick) / 3 (thorough) writer goroutines x 2 WriteUpdate calls each with distinct bodies, a WriteUpdate from inside OnEstablished and one from inside the update handler (an inbound UPDATE is delivered), and a keep-alive timer expiry, all concurrent: all schedules with at most 2 delays, sleep-set reduced (select arms ready together always all explored); then the remote closes; the concatenation of everything written is parsed by a reference framer")
	e := newPenv(false)
	e.pl.writeInEstablished = []byte{0xE0, 0xE0, 0xE0, 0xE0}
	e.pl.writeInHandler = []byte{0xD0, 0xD0, 0xD0, 0xD0, 0xD0}
	e.p.start()
	c := e.bring(out, stEstablished)
	verifAssert("established", e.pl.nEstab == 1)
	verifDelayBound(d)
	errs := make([][]error, W)
	done := make(chan int, W)
	for w := 0; w < W; w++ {
		errs[w] = make([]error, C)
		go func(w int) {
			for k := 0; k < C; k++ {
				errs[w][k] = e.pl.writer.WriteUpdate(c04Body(w, k))
			}
			done <- w
		}(w)
	}
	// concurrently: an inbound UPDATE (handler writes), and the keep-alive timer fires
	c.send(verifMsgUpdate, []byte{0, 0, 0, 0})
	if f := e.p.fsms[out]; f != nil && f.keepAliveTimer != nil {
		verifFireTimer(f.keepAliveTimer)
	}
	for w := 0; w < W; w++ {
		<-done
	}
	verifQuiesce()
	frames, whole := c04Parse(c.writes)
	verifAssert("stream-is-whole-wellformed-messages", whole)
	for w := 0; w < W; w++ {
		last := -1
		for k := 0; k < C; k++ {
			n, at := 0, -1
			for i, fr := range frames {
				if fr.typ == verifMsgUpdate && c04SameBytes(fr.body, c04Body(w, k)) {
					n++
					at = i
				}
			}
			if errs[w][k] == nil {
				verifAssert("nil-writeupdate-appears-exactly-once", n == 1)
				verifAssert("per-goroutine-order-preserved", at > last)
				last = at
			} else {
				verifAssert("failed-writeupdate-not-duplicated", n <= 1)
			}
		}
	}
	nE, nH := 0, 0
	for _, fr := range frames {
		if fr.typ == verifMsgUpdate && c04SameBytes(fr.body, e.pl.writeInEstablished) {
			nE++
		}
		if fr.typ == verifMsgUpdate && c04SameBytes(fr.body, e.pl.writeInHandler) {
			nH++
		}
	}
	verifAssert("write-from-onestablished-once", nE == 1)
	verifAssert("write-from-handler-once", nH == 1 && len(e.pl.updates) == 1)
	verifAssert("writes-from-callbacks-succeeded", len(e.pl.writeErrs) == 2 && e.pl.writeErrs[0] == nil && e.pl.writeErrs[1] == nil)
	verifCover("concurrent-writers")
	// session ends: the stale writer must fail and never reach a later connection
	stale := e.pl.writer
	c.remoteClose(1)
	verifQuiesce()
	verifAssert("session-closed", e.pl.nClose == 1 && c.closed)
	before := len(c.writes)
	err := stale.WriteUpdate([]byte{0xAA, 0xAA, 0xAA, 0xAA})
	verifAssert("writeupdate-after-session-fails", err != nil)
	verifAssert("no-bytes-after-session", len(c.writes) == before)
	e.p.stop()
}

// WriteUpdate racing with teardown, and a stale writer against the next connection
func Verif_C04_teardown_and_reconnect() {
	verifEngineOnly()
	d := 2
	if verifTier() >= 1 {
		d = 3
	}
	verifNote("Established outbound session; a writer goroutine issues 2 WriteUpdate calls while the remote closes the connection (all schedules within 2/3 delays); then the peer re-dials, a second session is Established, and the stale writer of the first session is used again")
	e := newPenv(false)
	e.dial.outcomes = []dialOutcome{dialOK, dialOK, dialPendingThenFail}
	e.p.options.idleHoldTime = 0
	e.p.start()
	c1 := e.bring(out, stEstablished)
	stale := e.pl.writer
	verifDelayBound(d)
	done := make(chan struct{})
	var errs [2]error
	go func() {
		errs[0] = stale.WriteUpdate(c04Body(0, 0))
		errs[1] = stale.WriteUpdate(c04Body(0, 1))
		close(done)
	}()
	c1.remoteClose(1)
	<-done
	verifQuiesce()
	verifDelayBound(0)
	verifAssert("first-session-closed", c1.closed && e.pl.nClose == 1)
	frames, whole := c04Parse(c1.writes)
	verifAssert("stream-is-whole-wellformed-messages", whole)
	for k := 0; k < 2; k++ {
		n := 0
		for _, fr := range frames {
			if fr.typ == verifMsgUpdate && c04SameBytes(fr.body, c04Body(0, k)) {
				n++
			}
		}
		if errs[k] == nil {
			verifAssert("nil-writeupdate-appears-exactly-once", n == 1)
		} else {
			verifAssert("failed-writeupdate-not-duplicated", n <= 1)
		}
	}
	// idle hold time 0: the peer re-dials at once; second session
	if e.p.fsms[out] != nil && e.p.fsms[out].idleHoldTimer != nil {
		verifFireTimer(e.p.fsms[out].idleHoldTimer)
	}
	verifQuiesce()
	c2 := e.conns[out]
	verifAssert("peer-redialled", e.nOut == 2 && c2 != c1)
	if c2 == nil || c2 == c1 {
		return
	}
	c2.send(verifMsgOpen, e.openBody())
	verifQuiesce()
	c2.send(verifMsgKeepalive, nil)
	verifQuiesce()
	verifAssert("second-session-established", e.pl.nEstab == 2)
	before := len(c2.writes)
	err := stale.WriteUpdate([]byte{0xBB, 0xBB, 0xBB, 0xBB})
	verifAssert("stale-writer-fails", err != nil)
	verifAssert("stale-writer-never-reaches-later-connection", len(c2.writes) == before)
	verifCover("stale-writer")
	e.p.stop()
	verifAssert("second-session-closed", e.pl.nClose == 2)
}

// the WriteUpdate contract does not depend on the hold time: with hold time 0 (no keep-alive timer at all)
// repeated calls from a goroutine and from both callbacks still return, appear once and in order
func Verif_C04_writes_with_hold_time_zero() {
	verifEngineOnly()
	verifNote("real peer, the remote's OPEN proposes hold time 0 (no hold timer, no keep-alive timer in this session); WriteUpdate from inside OnEstablished, from inside the update handler (twice: two inbound UPDATEs) and 3 calls from another goroutine: all schedules with at most 1 delay; every call returns nil, the wire log is whole frames with each body exactly once, per-goroutine order kept; then the peer is stopped (must return)")
	e := newPenv(false)
	e.pl.writeInEstablished = []byte{0xE0, 0xE0, 0xE0, 0xE0}
	e.pl.writeInHandler = []byte{0xD0, 0xD0, 0xD0, 0xD0, 0xD0}
	e.p.start()
	verifQuiesce()
	c := e.conns[out]
	if c == nil {
		verifAssert("dialled", false)
		return
	}
	c.send(verifMsgOpen, mkOpenBody(e.cfg.remoteAS, 0, e.remoteID))
	verifQuiesce()
	c.send(verifMsgKeepalive, nil)
	verifQuiesce()
	verifAssert("established-with-hold-time-zero", e.pl.nEstab == 1 && e.pl.writer != nil)
	if e.pl.writer == nil {
		return
	}
	f := e.p.fsms[out]
	verifAssert("no-keepalive-timer-armed", f != nil && (f.keepAliveTimer == nil || !verifTimerArmed(f.keepAliveTimer)))
	verifDelayBound(1)
	const C = 3
	errs := make([]error, C)
	done := make(chan struct{})
	go func() {
		for k := 0; k < C; k++ {
			errs[k] = e.pl.writer.WriteUpdate(c04Body(0, k))
		}
		close(done)
	}()
	c.send(verifMsgUpdate, []byte{0, 0, 0, 0})
	c.send(verifMsgUpdate, []byte{0, 0, 0, 0})
	<-done
	verifQuiesce()
	frames, whole := c04Parse(c.writes)
	verifAssert("stream-is-whole-wellformed-messages", whole)
	last := -1
	for k := 0; k < C; k++ {
		n, at := 0, -1
		for i, fr := range frames {
			if fr.typ == verifMsgUpdate && c04SameBytes(fr.body, c04Body(0, k)) {
				n++
				at = i
			}
		}
		verifAssert("writeupdate-returns-nil", errs[k] == nil)
		verifAssert("nil-writeupdate-appears-exactly-once", n == 1)
		verifAssert("per-goroutine-order-preserved", at > last)
		last = at
	}
	nE, nH, nK := 0, 0, 0
	for _, fr := range frames {
		if fr.typ == verifMsgUpdate && c04SameBytes(fr.body, e.pl.writeInEstablished) {
			nE++
		}
		if fr.typ == verifMsgUpdate && c04SameBytes(fr.body, e.pl.writeInHandler) {
			nH++
		}
		if fr.typ == verifMsgKeepalive {
			nK++
		}
	}
	verifAssert("write-from-onestablished-once", nE == 1)
	verifAssert("writes-from-handler-once-each", nH == 2 && len(e.pl.updates) == 2)
	verifAssert("writes-from-callbacks-succeeded", len(e.pl.writeErrs) == 3 && e.pl.writeErrs[0] == nil && e.pl.writeErrs[1] == nil && e.pl.writeErrs[2] == nil)
	verifAssert("only-the-handshake-keepalive", nK == 1)
	verifCover("hold-time-zero-writes")
	e.p.stop()
	verifAssert("stopped", e.pl.nClose == 1 && c.closed)
}
