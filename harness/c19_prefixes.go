//go:build verif

package corebgp

import (
	"errors"
	"net/netip"
)

// C19 — prefix / NLRI / add-path / MP_REACH / MP_UNREACH decoders are exact.

const c19MaxN = 5

type c19ref struct {
	on   [c19MaxN]bool
	off  [c19MaxN]int // offset of the entry (of the path id when add-path)
	bits [c19MaxN]uint8
	oct  [c19MaxN]int
	n    int  // number of entries
	ok   bool // every entry well-formed
	end  int  // offset after the last good entry
}

func c19N() int {
	if verifTier() >= 1 {
		return 5
	}
	return 3
}

// c19Ref is the reference walk (RFC 4271 §4.3, RFC 7911 §3) over offsets; no forking.
func c19Ref(b []byte, ipv6, addPath bool, N int) c19ref {
	var r c19ref
	L := len(b)
	hdr := 0
	if addPath {
		hdr = 4
	}
	var maxBits uint8 = 32
	if ipv6 {
		maxBits = 128
	}
	off := 0
	ok := true
	n := 0
	for s := 0; s < N; s++ {
		active := verifAnd(ok, off < L)
		bits := verifAt(b, off+hdr)
		oct := (int(bits) + 7) / 8
		end := off + hdr + 1 + oct
		entryOK := verifAnd(verifAnd(off+hdr+1 <= L, bits <= maxBits), end <= L)
		good := verifAnd(active, entryOK)
		r.on[s], r.off[s], r.bits[s], r.oct[s] = good, off, bits, oct
		ok = verifIteBool(active, entryOK, ok)
		n = verifIteInt(good, n+1, n)
		off = verifIteInt(good, end, off)
	}
	r.n, r.ok, r.end = n, ok, off
	return r
}

func c19CheckPrefix(id string, p netip.Prefix, b []byte, ref *c19ref, j int, ipv6 bool, hdr int) {
	verifAssert(id+"-entry-exists", ref.on[j])
	verifAssert(id+"-bits", p.Bits() == int(ref.bits[j]))
	base := ref.off[j] + hdr + 1
	if ipv6 {
		a := p.Addr().As16()
		eq := true
		for k := 0; k < 16; k++ {
			eq = verifAnd(eq, a[k] == verifIteU8(k < ref.oct[j], verifAt(b, base+k), 0))
		}
		verifAssert(id+"-address-bytes", eq)
	} else {
		a := p.Addr().As4()
		eq := true
		for k := 0; k < 4; k++ {
			eq = verifAnd(eq, a[k] == verifIteU8(k < ref.oct[j], verifAt(b, base+k), 0))
		}
		verifAssert(id+"-address-bytes", eq)
	}
}

func c19PrefixList(id string, ipv6 bool) {
	N := c19N()
	verifLoopBound(N)
	verifNote("prefix lists: at most N entries per field (3 quick, 2 for IPv6 add-path / 5 thorough); all bit lengths, address bits, path ids and field lengths symbolic")
	b := verifBuf("field", 0, 4096)
	ref := c19Ref(b, ipv6, false, N)
	verifAssume(verifOr(!ref.ok, ref.end == len(b))) // bound: at most N entries
	ps, err := decodePrefixes(b, ipv6)
	wf := verifAnd(ref.ok, ref.end == len(b))
	if err != nil {
		verifAssert(id+"-fails-only-malformed", !wf)
		verifCover(id + "-rejected")
		return
	}
	verifAssert(id+"-succeeds-only-wellformed", wf)
	verifAssert(id+"-count", len(ps) == ref.n)
	for j := 0; j < len(ps) && j < N; j++ {
		c19CheckPrefix(id, ps[j], b, &ref, j, ipv6, 0)
	}
	verifCover(id + "-accepted")
	verifCoverIf(id+"-two-entries", len(ps) == 2)
	verifCoverIf(id+"-empty-field", len(b) == 0)
}

func c19AddPathList(id string, ipv6 bool) {
	N := c19N()
	if ipv6 && verifTier() == 0 {
		N = 2 // (16-byte address comparisons make the v6 add-path queries the slowest)
	}
	verifLoopBound(N)
	b := verifBuf("field", 0, 4096)
	ref := c19Ref(b, ipv6, true, N)
	verifAssume(verifOr(!ref.ok, ref.end == len(b)))
	ps, err := decodeAddPathPrefixes(b, ipv6)
	wf := verifAnd(ref.ok, ref.end == len(b))
	if err != nil {
		verifAssert(id+"-fails-only-malformed", !wf)
		verifCover(id + "-rejected")
		return
	}
	verifAssert(id+"-succeeds-only-wellformed", wf)
	verifAssert(id+"-count", len(ps) == ref.n)
	for j := 0; j < len(ps) && j < N; j++ {
		c19CheckPrefix(id, ps[j].Prefix, b, &ref, j, ipv6, 4)
		verifAssert(id+"-path-id", ps[j].ID == c18be32(b, ref.off[j]))
	}
	verifCover(id + "-accepted")
	verifCoverIf(id+"-two-entries", len(ps) == 2)
}

func Verif_C19_prefixes_v4()         { c19PrefixList("v4", false) }
func Verif_C19_prefixes_v6()         { c19PrefixList("v6", true) }
func Verif_C19_addpath_prefixes_v4() { c19AddPathList("apv4", false) }
func Verif_C19_addpath_prefixes_v6() { c19AddPathList("apv6", true) }

type c19rec struct {
	called   int
	prefixes []netip.Prefix
	ap       []AddPathPrefix
	afi      uint16
	safi     uint8
	nh, nlri []byte
}

// The four UPDATE field wrappers: same decoding, RFC-assigned notification on failure,
// callback invoked exactly once with the decoded list on success and not at all on failure.
func Verif_C19_field_wrappers() {
	verifLoopBound(2)
	verifNote("field wrappers: at most 2 entries (decoding itself is covered by the prefix-list harnesses)")
	b := verifBuf("field", 0, 4096)
	which := verifChoose("wrapper", 4)
	rec := &c19rec{}
	var err error
	var wantSub uint8
	addPath := false
	switch which {
	case 0:
		err = NewNLRIDecodeFn(func(t *c19rec, p []netip.Prefix) error { t.called++; t.prefixes = p; return nil })(rec, b)
		wantSub = NOTIF_SUBCODE_INVALID_NETWORK_FIELD
	case 1:
		err = NewWithdrawnRoutesDecodeFn(func(t *c19rec, p []netip.Prefix) error { t.called++; t.prefixes = p; return nil })(rec, b)
		wantSub = 0
	case 2:
		err = NewNLRIAddPathDecodeFn(func(t *c19rec, p []AddPathPrefix) error { t.called++; t.ap = p; return nil })(rec, b)
		wantSub = NOTIF_SUBCODE_INVALID_NETWORK_FIELD
		addPath = true
	case 3:
		err = NewWithdrawnAddPathRoutesDecodeFn(func(t *c19rec, p []AddPathPrefix) error { t.called++; t.ap = p; return nil })(rec, b)
		wantSub = 0
		addPath = true
	}
	ref := c19Ref(b, false, addPath, 2)
	verifAssume(verifOr(!ref.ok, ref.end == len(b)))
	wf := verifAnd(ref.ok, ref.end == len(b))
	if err != nil {
		verifAssert("wrapper-fails-only-malformed", !wf)
		verifAssert("wrapper-no-callback-on-failure", rec.called == 0)
		n, isN := err.(*Notification)
		verifAssert("wrapper-failure-is-notification", isN)
		if isN {
			verifAssert("wrapper-notification-code", n.Code == NOTIF_CODE_UPDATE_MESSAGE_ERR)
			verifAssert("wrapper-notification-subcode", n.Subcode == wantSub)
		}
		verifCover("wrapper-rejected")
		return
	}
	verifAssert("wrapper-succeeds-only-wellformed", wf)
	verifAssert("wrapper-callback-once", rec.called == 1)
	if addPath {
		verifAssert("wrapper-count", len(rec.ap) == ref.n)
	} else {
		verifAssert("wrapper-count", len(rec.prefixes) == ref.n)
	}
	verifCover("wrapper-accepted")
}

func c19HasNotifCode3(err error) bool {
	var n *Notification
	if errors.As(err, &n) {
		return n.Code == NOTIF_CODE_UPDATE_MESSAGE_ERR
	}
	return false
}

func c19HasTAW(err error) bool {
	var t *TreatAsWithdrawUpdateErr
	return errors.As(err, &t)
}

func Verif_C19_mp_reach() {
	flags := PathAttrFlags(verifU8("flags"))
	b := verifBuf("attr", 0, 4096)
	rec := &c19rec{}
	fn := NewMPReachNLRIDecodeFn(func(t *c19rec, afi uint16, safi uint8, nh, nlri []byte) error {
		t.called++
		t.afi, t.safi, t.nh, t.nlri = afi, safi, nh, nlri
		return nil
	})
	err := fn(rec, flags, b)
	L := len(b)
	nhLen := int(verifAt(b, 3))
	tooShort := verifOr(L < 5, L < 4+nhLen+1)
	fok := c18FlagsOK(flags, true, false)
	if rec.called == 0 {
		verifAssert("mpreach-no-callback-only-when-too-short", tooShort)
		verifAssert("mpreach-too-short-is-session-reset", c19HasNotifCode3(err))
		verifCover("mpreach-too-short")
	} else {
		verifAssert("mpreach-callback-only-when-long-enough", !tooShort)
		verifAssert("mpreach-callback-once", rec.called == 1)
		verifAssert("mpreach-afi", rec.afi == uint16(verifAt(b, 0))<<8|uint16(verifAt(b, 1)))
		verifAssert("mpreach-safi", rec.safi == verifAt(b, 2))
		verifAssert("mpreach-nh-len", len(rec.nh) == nhLen)
		verifAssert("mpreach-nh-off", verifImplies(len(rec.nh) > 0, verifSliceOff(rec.nh, b) == 4))
		verifAssert("mpreach-nlri-len", len(rec.nlri) == L-5-nhLen)
		verifAssert("mpreach-nlri-off", verifImplies(len(rec.nlri) > 0, verifSliceOff(rec.nlri, b) == 4+nhLen+1))
		verifAssert("mpreach-nil-iff-flags-ok", verifIff(err == nil, fok))
		verifCover("mpreach-delivered")
		verifCoverIf("mpreach-nh-255", nhLen == 255)
	}
	if err != nil {
		verifAssert("mpreach-flags-error-is-treat-as-withdraw", verifImplies(!fok, c19HasTAW(err)))
	}
}

func Verif_C19_mp_unreach() {
	flags := PathAttrFlags(verifU8("flags"))
	b := verifBuf("attr", 0, 4096)
	rec := &c19rec{}
	fn := NewMPUnreachNLRIDecodeFn(func(t *c19rec, afi uint16, safi uint8, withdrawn []byte) error {
		t.called++
		t.afi, t.safi, t.nlri = afi, safi, withdrawn
		return nil
	})
	err := fn(rec, flags, b)
	L := len(b)
	fok := c18FlagsOK(flags, true, false)
	if rec.called == 0 {
		verifAssert("mpunreach-no-callback-only-when-too-short", L < 3)
		verifAssert("mpunreach-too-short-is-session-reset", c19HasNotifCode3(err))
		verifCover("mpunreach-too-short")
	} else {
		verifAssert("mpunreach-callback-only-when-long-enough", L >= 3)
		verifAssert("mpunreach-afi", rec.afi == uint16(verifAt(b, 0))<<8|uint16(verifAt(b, 1)))
		verifAssert("mpunreach-safi", rec.safi == verifAt(b, 2))
		verifAssert("mpunreach-withdrawn-len", len(rec.nlri) == L-3)
		verifAssert("mpunreach-withdrawn-off", verifImplies(len(rec.nlri) > 0, verifSliceOff(rec.nlri, b) == 3))
		verifAssert("mpunreach-nil-iff-flags-ok", verifIff(err == nil, fok))
		verifCover("mpunreach-delivered")
	}
	if err != nil {
		verifAssert("mpunreach-flags-error-is-treat-as-withdraw", verifImplies(!fok, c19HasTAW(err)))
	}
}

func Verif_C19_ipv6_next_hops() {
	nh := verifBuf("nh", 0, 255)
	as, err := DecodeMPReachIPv6NextHops(nh)
	okLen := verifOr(len(nh) == 16, len(nh) == 32)
	if err != nil {
		verifAssert("nh6-fails-only-bad-length", !okLen)
		n, isN := err.(*Notification)
		verifAssert("nh6-failure-is-notification", isN)
		if isN {
			verifAssert("nh6-notification-code", n.Code == NOTIF_CODE_UPDATE_MESSAGE_ERR)
		}
		verifCover("nh6-rejected")
		return
	}
	verifAssert("nh6-succeeds-only-16-or-32", okLen)
	verifAssert("nh6-count", len(as)*16 == len(nh))
	for j := 0; j < len(as); j++ {
		a := as[j].As16()
		eq := true
		for k := 0; k < 16; k++ {
			eq = verifAnd(eq, a[k] == verifAt(nh, 16*j+k))
		}
		verifAssert("nh6-address-bytes", eq)
	}
	verifCoverIf("nh6-one", len(as) == 1)
	verifCoverIf("nh6-two", len(as) == 2)
}

// The exported MP IPv6 helpers: same decoding, session-reset class error.
func Verif_C19_mp_ipv6_helpers() {
	verifLoopBound(2)
	b := verifBuf("field", 0, 4096)
	addPath := verifChoose("addpath", 2) == 1
	ref := c19Ref(b, true, addPath, 2)
	verifAssume(verifOr(!ref.ok, ref.end == len(b)))
	wf := verifAnd(ref.ok, ref.end == len(b))
	var err error
	count := 0
	if addPath {
		var ps []AddPathPrefix
		ps, err = DecodeMPIPv6AddPathPrefixes(b)
		count = len(ps)
		if err == nil {
			for j := 0; j < len(ps) && j < 2; j++ {
				c19CheckPrefix("mp6ap", ps[j].Prefix, b, &ref, j, true, 4)
				verifAssert("mp6ap-path-id", ps[j].ID == c18be32(b, ref.off[j]))
			}
		}
	} else {
		var ps []netip.Prefix
		ps, err = DecodeMPIPv6Prefixes(b)
		count = len(ps)
		if err == nil {
			for j := 0; j < len(ps) && j < 2; j++ {
				c19CheckPrefix("mp6", ps[j], b, &ref, j, true, 0)
			}
		}
	}
	if err != nil {
		verifAssert("mp6-fails-only-malformed", !wf)
		n, isN := err.(*Notification)
		verifAssert("mp6-failure-is-notification", isN)
		if isN {
			verifAssert("mp6-notification-code", n.Code == NOTIF_CODE_UPDATE_MESSAGE_ERR)
		}
		verifCover("mp6-rejected")
		return
	}
	verifAssert("mp6-succeeds-only-wellformed", wf)
	verifAssert("mp6-count", count == ref.n)
	verifCover("mp6-accepted")
}
