//go:build verif

package corebgp

// C08 — receive-side header validation and stream framing; NOTIFICATIONs reach the wire verbatim.

func c08State(state int, p *peer, conn *symConn) *fsm {
	if state == stOpenSent {
		return fsmInOpenSent(p, conn)
	}
	return fsmNegotiated(p, conn, 90, 1)
}

func Verif_C08_header_faults() {
	verifEngineOnly()
	T := 24
	if verifTier() >= 1 {
		T = 64
	}
	verifNote("one message with all 19 header bytes symbolic followed by a symbolic tail of 0..T bytes (24 quick / 64 thorough) then EOF, in each of OpenSent/OpenConfirm/Established; up to 2 short reads (every segmentation of the first two Read calls); messages longer than the tail end in EOF mid-body (silent close)")
	state := verifChoose("state", 3)
	cfg := concreteConfig()
	hdr := verifBuf("header", 19, 19)
	tail := verifBuf("tail", 0, T)
	// reference fault predicates (RFC 4271 §6.1)
	badMarker := false
	for i := 0; i < 16; i++ {
		badMarker = verifOr(badMarker, hdr[i] != 0xFF)
	}
	mlen := int(hdr[16])<<8 | int(hdr[17])
	badLen := verifOr(mlen < 19, mlen > 4096)
	typ := hdr[18]
	badType := verifOr(typ < 1, typ > 4)
	bodyComplete := mlen-19 <= len(tail)
	hdrFault := verifOr(badMarker, badLen)
	if !verifChooseBool(hdrFault) && verifChooseBool(bodyComplete) && !verifChooseBool(badType) {
		// well-formed header and complete message: what the state does with it is C09 / C03 / C02
		verifCover("wellformed-header")
		return
	}
	conn := newSymConn("c", nil, 1)
	conn.addBytes(hdr)
	conn.addBytes(tail)
	conn.shortReads = 2
	pl := newMonPlugin()
	p := mkPeer(cfg, pl)
	f := c08State(state, p, conn)
	to, err := c09Run(f, state)
	verifQuiesce()
	n, out := c02Notif(err)
	if verifChooseBool(hdrFault) {
		verifAssert("header-fault-one-notification", len(conn.writes) == 1)
		verifAssert("header-fault-goes-idle", to == idleState)
		verifAssert("header-fault-closes", conn.closed)
		verifAssert("nothing-after-faulty-header-consumed", conn.pos <= 19)
		verifAssert("header-fault-error-is-sent-notification", n != nil && out)
		if len(conn.writes) == 1 {
			w := conn.writes[0]
			isSync := isNotification(w, NOTIF_CODE_MESSAGE_HEADER_ERR, NOTIF_SUBCODE_CONN_NOT_SYNCHRONIZED, 0)
			isLen := isNotification(w, NOTIF_CODE_MESSAGE_HEADER_ERR, NOTIF_SUBCODE_BAD_MESSAGE_LEN, 0)
			verifAssert("notification-names-a-present-header-fault", verifOr(verifAnd(isSync, badMarker), verifAnd(isLen, badLen)))
		}
		verifCoverIf("bad-marker", badMarker)
		verifCoverIf("bad-length-only", verifAnd(badLen, !badMarker))
	} else if !verifChooseBool(bodyComplete) {
		verifAssert("truncated-body-is-silent", len(conn.writes) == 0)
		verifAssert("truncated-body-closes", conn.closed)
		verifAssert("truncated-body-not-a-notification-error", n == nil)
		verifCover("eof-mid-body")
	} else if verifChooseBool(badType) {
		verifAssert("bad-type-one-notification", len(conn.writes) == 1)
		verifAssert("bad-type-goes-idle", to == idleState)
		verifAssert("bad-type-closes", conn.closed)
		verifAssert("nothing-after-bad-type-message-consumed", conn.pos <= mlen)
		if len(conn.writes) == 1 {
			w := conn.writes[0]
			verifAssert("bad-type-notification", isNotification(w, NOTIF_CODE_MESSAGE_HEADER_ERR, NOTIF_SUBCODE_BAD_MESSAGE_TYPE, 1))
			verifAssert("bad-type-data-is-type-octet", verifAt(w, 21) == typ)
		}
		verifCover("bad-type")
	}
	verifAssert("at-most-one-write-besides-open-reply", len(conn.writes) <= 1)
}

// framing is by the length field alone: a well-formed message before a faulty one is processed
func Verif_C08_wellformed_prefix_processed() {
	verifEngineOnly()
	verifNote("Established: UPDATE (body length symbolic 0..64) followed by a faulty message: a header with a corrupted marker, a header with a bad length, or an unknown-type message with a body of 0..16 symbolic bytes; the UPDATE is delivered byte-exact (compared after the faulty message has been read, so a receive buffer shared between messages would show), then the matching NOTIFICATION is sent")
	cfg := concreteConfig()
	body := verifBuf("update", 0, 64)
	kind := verifChoose("fault", 3)
	conn := newSymConn("c", nil, 1)
	conn.addFrame(verifMsgUpdate, body)
	var typ byte
	switch kind {
	case 0:
		bad := verifBuf("badhdr", 19, 19)
		k := verifInt("corrupt")
		verifAssume(verifAnd(k >= 0, k < 16))
		verifAssume(verifAt(bad, k) != 0xFF)
		conn.addBytes(bad)
	case 1:
		l := verifU16("badlen")
		verifAssume(verifOr(l < 19, l > 4096))
		h := mkFrame(verifU8("type"), nil)
		h[16], h[17] = byte(l>>8), byte(l)
		conn.addBytes(h)
	default:
		typ = verifU8("badtype")
		verifAssume(verifOr(typ < 1, typ > 4))
		conn.addFrame(typ, verifBuf("badbody", 0, 16))
	}
	conn.shortReads = 1
	pl := newMonPlugin()
	p := mkPeer(cfg, pl)
	f := fsmNegotiated(p, conn, 90, 1)
	to, _ := f.established()
	verifQuiesce()
	verifAssert("update-before-fault-delivered", len(pl.updates) == 1)
	if len(pl.updates) == 1 {
		verifAssertBytesEq("update-before-fault-bytes", pl.updates[0], body)
	}
	verifAssert("one-notification", len(conn.writes) == 1)
	if len(conn.writes) == 1 {
		w := conn.writes[0]
		switch kind {
		case 0:
			verifAssert("then-not-synchronized", isNotification(w, NOTIF_CODE_MESSAGE_HEADER_ERR, NOTIF_SUBCODE_CONN_NOT_SYNCHRONIZED, 0))
		case 1:
			verifAssert("then-bad-length", isNotification(w, NOTIF_CODE_MESSAGE_HEADER_ERR, NOTIF_SUBCODE_BAD_MESSAGE_LEN, 0))
		default:
			verifAssert("then-bad-type", isNotification(w, NOTIF_CODE_MESSAGE_HEADER_ERR, NOTIF_SUBCODE_BAD_MESSAGE_TYPE, 1) && verifAt(w, 21) == typ)
		}
	}
	verifAssert("closed-and-idle", conn.closed && to == idleState)
	verifAssert("onclose-once", pl.nClose == 1)
	verifCover("prefix-processed")
}

// a NOTIFICATION corebgp sends reaches the wire with exactly its code, subcode and data
func Verif_C08_notification_verbatim() {
	verifEngineOnly()
	cfg := concreteConfig()
	conn := newSymConn("c", nil, 0)
	p := mkPeer(cfg, newMonPlugin())
	f := newFSM(p, verifDirOf(conn), conn)
	data := verifBuf("data", 0, 4075)
	n := &Notification{Code: verifU8("code"), Subcode: verifU8("subcode"), Data: data}
	err := f.sendNotification(n)
	verifAssert("send-ok", err == nil)
	verifAssert("one-write", len(conn.writes) == 1)
	if len(conn.writes) == 1 {
		w := conn.writes[0]
		verifAssert("is-notification-frame", isNotification(w, n.Code, n.Subcode, len(data)))
		verifAssume(len(w) >= 21)
		verifAssertBytesEq("data-verbatim", w[21:], data)
	}
	verifCoverIf("one-byte-data", len(data) == 1)
}

// ... also while another goroutine is writing on the same connection (encode buffers must not be shared)
func Verif_C08_notification_verbatim_with_concurrent_writer() {
	verifEngineOnly()
	verifNote("real peer in Established; an unknown-type message (concrete type 7, empty body) arrives while a plugin goroutine calls WriteUpdate with a 4-byte body and the keep-alive timer fires: all schedules with at most 2 delays (Write is a scheduling point between encoding and the copy onto the wire); the wire log must consist of whole frames and contain exactly one NOTIFICATION, namely (1,3,[7]) (a racing UPDATE may still follow it before the close: the property does not forbid that), and the UPDATE, if WriteUpdate returned nil, byte-exact")
	e := newPenv(false)
	e.p.start()
	c := e.bring(out, stEstablished)
	verifAssert("established", e.pl.nEstab == 1 && e.pl.writer != nil)
	if e.pl.writer == nil {
		return
	}
	c.writes = nil
	verifDelayBound(2)
	body := []byte{0, 0, 0, 0}
	done := make(chan error, 1)
	go func() { done <- e.pl.writer.WriteUpdate(body) }()
	if f := e.p.fsms[out]; f != nil && f.keepAliveTimer != nil {
		verifFireTimer(f.keepAliveTimer)
	}
	c.send(7, nil)
	werr := <-done
	verifQuiesce()
	frames, whole := c04Parse(c.writes)
	verifAssert("wire-is-whole-frames", whole)
	nNotif, nUpd := 0, 0
	for _, fr := range frames {
		switch fr.typ {
		case verifMsgNotification:
			nNotif++
			verifAssert("notification-verbatim", len(fr.body) == 3 && fr.body[0] == NOTIF_CODE_MESSAGE_HEADER_ERR && fr.body[1] == NOTIF_SUBCODE_BAD_MESSAGE_TYPE && fr.body[2] == 7)
		case verifMsgUpdate:
			nUpd++
			verifAssert("update-verbatim", c04SameBytes(fr.body, body))
		case verifMsgKeepalive:
			verifAssert("keepalive-empty", len(fr.body) == 0)
		default:
			verifAssert("no-other-frame-type", false)
		}
	}
	verifAssert("exactly-one-notification", nNotif == 1)
	if werr == nil {
		verifAssert("nil-writeupdate-on-the-wire-once", nUpd == 1)
	}
	verifAssert("closed", c.closed && e.pl.nClose == 1)
	verifCover("notification-with-concurrent-writer")
	e.p.stop()
}
