//go:build verif

package corebgp

import (
	"net/netip"
	"time"
)

// C14 — the OPEN corebgp sends reflects configuration and plugin capabilities.

func c14Caps(n int) []Capability {
	var caps []Capability
	for i := 0; i < n; i++ {
		caps = append(caps, Capability{Code: verifU8("capcode"), Value: verifBuf("capval", 0, 300)})
	}
	return caps
}

func c14CheckOpen(enc []byte, localAS uint32, holdSec uint16, id uint32, caps []Capability) {
	// representability
	capsTotal := 6
	rep := true
	tooLong := false // a kept capability whose value does not fit its length octet: no OPEN can carry it byte-exact
	for _, c := range caps {
		kept := c.Code != CAP_FOUR_OCTET_AS
		rep = verifAnd(rep, verifOr(!kept, len(c.Value) <= 255))
		tooLong = verifOr(tooLong, verifAnd(kept, len(c.Value) > 255))
		capsTotal = verifIteInt(kept, capsTotal+2+len(c.Value), capsTotal)
	}
	rep = verifAnd(rep, capsTotal <= 253)
	if !verifChooseBool(rep) {
		// not representable: nothing, or a well-formed OPEN, may reach the wire
		if enc == nil {
			verifCover("unrepresentable-refused")
			return
		}
		// every emitted OPEN carries exactly the returned capabilities: impossible for a value > 255 bytes
		verifAssert("capability-value-over-255-bytes-never-emitted", !tooLong)
		verifAssume(len(enc) >= 19)
		ok, _ := c15OpenWellFormed(enc[19:], 4, 8)
		verifAssert("unrepresentable-capabilities-never-malformed-open", ok)
		return
	}
	if enc == nil {
		verifAssert("representable-open-is-encoded", false)
		return
	}
	c15HeaderOK("open", enc, verifMsgOpen, 10+2+capsTotal)
	verifAssume(len(enc) == 19+12+capsTotal)
	b := enc[19:]
	verifAssert("version-4", b[0] == 4)
	wantAS := verifIteU16(localAS > 65535, 23456, uint16(localAS))
	verifAssert("as-field", uint16(b[1])<<8|uint16(b[2]) == wantAS)
	verifAssert("hold-time", uint16(b[3])<<8|uint16(b[4]) == holdSec)
	verifAssert("bgp-identifier", c18be32(b, 5) == id)
	verifAssert("opt-params-length", int(b[9]) == 2+capsTotal)
	verifAssert("param-type-capabilities", b[10] == 2)
	verifAssert("param-length", int(b[11]) == capsTotal)
	verifAssert("four-octet-as-cap-first", verifAnd(b[12] == CAP_FOUR_OCTET_AS, b[13] == 4))
	verifAssert("four-octet-as-cap-value", c18be32(b, 14) == localAS)
	pos := 18
	for _, c := range caps {
		kept := c.Code != CAP_FOUR_OCTET_AS
		k := verifInt("ck")
		in := verifAnd(kept, verifAnd(k >= 0, k < len(c.Value)))
		verifAssert("cap-code", verifImplies(kept, verifAt(b, pos) == c.Code))
		verifAssert("cap-length-octet", verifImplies(kept, int(verifAt(b, pos+1)) == len(c.Value)))
		verifAssert("cap-value-bytes", verifImplies(in, verifAt(b, pos+2+k) == verifAt(c.Value, k)))
		pos = verifIteInt(kept, pos+2+len(c.Value), pos)
	}
	verifAssert("nothing-after-last-capability", pos == len(b))
	verifCover("representable-open")
}

func verifChooseBool(c bool) bool {
	if c {
		return true
	}
	return false
}

func Verif_C14_open_encoding() {
	n := 2
	if verifTier() >= 1 {
		n = 3
	}
	verifNote("OPEN sent: local AS (32 bits), hold time (uint16, 0 or >= 3), router id, and 0..n plugin capabilities (2 quick / 3 thorough) with symbolic codes (incl. 65) and value lengths 0..300; every total-length boundary (253/255/256) is reachable with two capabilities")
	nc := verifChoose("ncaps", n+1)
	localAS := verifU32("localAS")
	verifAssume(localAS != 0)
	holdSec := verifU16("hold")
	verifAssume(verifOr(holdSec == 0, holdSec >= 3))
	id := verifU32("routerID")
	caps := c14Caps(nc)
	o, err := newOpenMessage(localAS, time.Duration(holdSec)*time.Second, id, caps)
	var enc []byte
	if err == nil {
		enc, err = o.encode()
		if err != nil {
			enc = nil
		}
	}
	c14CheckOpen(enc, localAS, holdSec, id, caps)
	verifCoverIf("as-trans", localAS > 65535)
	verifCoverIf("plugin-supplied-cap-65", verifAnd(nc > 0, caps != nil))
}

// What actually reaches the wire: the real FSM path (dial / inbound -> sendOpenAndSetHoldTimer) with
// symbolic configuration and plugin capabilities.
func Verif_C14_open_on_the_wire() {
	verifNote("real peer, outbound (dialled) or inbound connection (symbolic): the first and only OPEN written on the connection is checked against the symbolic configuration (local AS, hold time, router id) and 0..2 plugin capabilities (symbolic codes, value lengths 0..300); GetCapabilities called exactly once before it; an unrepresentable capability list puts nothing malformed on the wire (connection closed)")
	dir := verifChoose("direction", 2)
	e := newPenv(dir == in)
	nc := verifChoose("ncaps", 3)
	e.pl.caps = c14Caps(nc)
	e.p.start()
	var c *symConn
	if dir == out {
		verifQuiesce()
		c = e.conns[out]
	} else {
		c = e.inject()
	}
	if c == nil {
		verifAssert("connection-exists", false)
		return
	}
	verifAssert("getcapabilities-exactly-once", e.pl.nGetCaps == 1)
	verifAssert("at-most-one-write", len(c.writes) <= 1)
	var enc []byte
	if len(c.writes) == 1 {
		enc = c.writes[0]
	} else {
		verifAssert("refused-open-closes-connection", c.closed)
	}
	c14CheckOpen(enc, e.cfg.localAS, e.cfg.holdSec, e.cfg.localID, e.pl.caps)
	e.p.stop()
}

// options are per peer: what one AddPeer call was given does not leak into the OPEN of a peer added later
func Verif_C14_Arith_options_are_per_peer() {
	verifEngineOnly()
	verifNote("one server, peer A added with WithHoldTime(h) (h symbolic, 0 or >= 3) and a local address, then peer B added with no option but WithPassive: the OPEN sent on an inbound connection of B carries the default hold time (90 s), the OPEN of A carries h; both carry the server's router id")
	h := verifU16("holdA")
	verifAssume(verifOr(h == 0, h >= 3))
	s, _ := NewServer(netip.AddrFrom4([4]byte{10, 0, 0, 1}))
	ra, rb := netip.AddrFrom4([4]byte{192, 0, 2, 1}), netip.AddrFrom4([4]byte{192, 0, 2, 2})
	pa, pb := newMonPlugin(), newMonPlugin()
	verifAssert("addpeer-a", s.AddPeer(PeerConfig{RemoteAddress: ra, LocalAS: 65000, RemoteAS: 65001}, pa, WithHoldTime(h), WithPassive(), WithLocalAddress(netip.AddrFrom4([4]byte{10, 0, 0, 1}))) == nil)
	verifAssert("addpeer-b", s.AddPeer(PeerConfig{RemoteAddress: rb, LocalAS: 65000, RemoteAS: 65002}, pb, WithPassive()) == nil)
	for k, r := range []netip.Addr{rb, ra} {
		p := s.peers[r.String()]
		if p == nil {
			verifAssert("peer-registered", false)
			return
		}
		p.start()
		c := newStagedConn("in")
		p.incomingConnection(c)
		verifQuiesce()
		verifAssert("open-written", c.wroteOpenFirst())
		if len(c.writes) >= 1 && len(c.writes[0]) >= 29 {
			o := c.writes[0]
			want := uint16(DefaultHoldTimeSeconds)
			if k == 1 {
				want = h
			}
			verifAssert("open-carries-this-peers-hold-time", uint16(o[22])<<8|uint16(o[23]) == want)
			verifAssert("open-carries-the-router-id", o[24] == 10 && o[25] == 0 && o[26] == 0 && o[27] == 1)
		}
		p.stop()
	}
	verifCover("per-peer-options")
}
