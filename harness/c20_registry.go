//go:build verif

package corebgp

import (
	"net"
	"net/netip"
	"time"
)

// C20 — peer registry behaves as a consistent map and rejects unusable configs.

type c20nopPlugin struct{}

func (c20nopPlugin) GetCapabilities(PeerConfig) []Capability { return nil }
func (c20nopPlugin) OnOpenMessage(PeerConfig, netip.Addr, []Capability) *Notification {
	return nil
}
func (c20nopPlugin) OnEstablished(PeerConfig, UpdateMessageWriter) UpdateMessageHandler { return nil }
func (c20nopPlugin) OnClose(PeerConfig)                                                 {}

func Verif_C20_new_server() {
	a, k := c20Addr("rid", 4)
	s, err := NewServer(a)
	verifAssert("newserver-accepts-exactly-ipv4", (err == nil) == (k == 1))
	if err == nil {
		as4 := a.As4()
		verifAssert("server-id-is-the-address", s.id == uint32(as4[0])<<24|uint32(as4[1])<<16|uint32(as4[2])<<8|uint32(as4[3]))
		verifCover("server-created")
	} else {
		verifAssert("no-server-on-error", s == nil)
		verifCover("server-refused")
	}
}

func Verif_C20_config_validation() {
	verifNote("AddPeer validation grid: remote/local address kind in {invalid, v4, v6 (incl. v4-mapped), zoned v6} with symbolic address bits, local/remote AS 32-bit, hold time uint16, port 64-bit int, passive; on a fresh server")
	s, _ := NewServer(netip.AddrFrom4([4]byte{10, 0, 0, 1}))
	remote, rk := c20Addr("remote", 4)
	local, lk := c20Addr("local", 4)
	cfg := PeerConfig{RemoteAddress: remote, LocalAS: verifU32("localAS"), RemoteAS: verifU32("remoteAS")}
	hold := verifU16("hold")
	port := verifInt("port")
	var opts []PeerOption
	opts = append(opts, WithHoldTime(hold), WithPort(port))
	if lk != 0 {
		opts = append(opts, WithLocalAddress(local))
	}
	if verifChoose("passive", 2) == 1 {
		opts = append(opts, WithPassive())
	}
	if verifChoose("timers", 2) == 1 {
		opts = append(opts, WithIdleHoldTime(time.Duration(verifU32("idle"))), WithConnectRetryTime(time.Duration(verifU32("retry"))))
	}
	err := s.AddPeer(cfg, c20nopPlugin{}, opts...)
	// reference: same family means both IPv4 or both IPv6 (a v4-mapped IPv6 address is IPv6)
	remoteOK := rk != 0
	famOK := lk == 0 || (lk == 1) == (rk == 1)
	asOK := verifAnd(cfg.LocalAS != 0, cfg.RemoteAS != 0)
	holdOK := verifOr(hold == 0, hold >= 3)
	portOK := verifAnd(port >= 1, port <= 65535)
	want := verifAnd(verifAnd(remoteOK && famOK, asOK), verifAnd(holdOK, portOK))
	verifAssert("addpeer-accepts-exactly-usable-configs", (err == nil) == want)
	if err != nil {
		verifAssert("rejected-addpeer-leaves-registry-empty", len(s.ListPeers()) == 0)
		verifAssert("rejected-addpeer-starts-nothing", verifGoroutines() == 0)
		if rk != 0 {
			_, gerr := s.GetPeer(remote)
			verifAssert("rejected-peer-not-registered", gerr == ErrPeerNotExist)
		}
		verifCover("config-rejected")
	} else {
		got, gerr := s.GetPeer(remote)
		verifAssert("accepted-peer-registered", gerr == nil)
		verifAssert("registered-config-equal", verifAnd(got.LocalAS == cfg.LocalAS, verifAnd(got.RemoteAS == cfg.RemoteAS, got.RemoteAddress == remote)))
		verifAssert("not-serving-starts-nothing", verifGoroutines() == 0)
		verifCover("config-accepted")
	}
	verifCoverIf("as-zero", verifOr(cfg.LocalAS == 0, cfg.RemoteAS == 0))
}

// Registry refinement: a sequence of operations against a reference list kept by the harness.
func Verif_C20_registry_sequence() {
	N := 3
	if verifTier() >= 1 {
		N = 4
	}
	verifNote("registry refinement: sequences of N operations (3 quick / 4 thorough) from {AddPeer, DeletePeer, GetPeer, ListPeers} with addresses drawn from two symbolic IPv4 addresses (equal or distinct, decided by the solver), server not serving; return values and sentinel errors compared with a reference map after every operation")
	s, _ := NewServer(netip.AddrFrom4([4]byte{10, 0, 0, 1}))
	var pool [2]netip.Addr
	for i := range pool {
		var a [4]byte
		for j := range a {
			a[j] = verifU8("addr")
		}
		pool[i] = netip.AddrFrom4(a)
	}
	type entry struct {
		addr netip.Addr
		as   uint32
	}
	var ref []entry
	find := func(a netip.Addr) int {
		for i := range ref {
			if ref[i].addr == a {
				return i
			}
		}
		return -1
	}
	for step := 0; step < N; step++ {
		a := pool[verifChoose("which", 2)]
		switch verifChoose("op", 4) {
		case 0:
			as := verifU32("as")
			verifAssume(as != 0)
			err := s.AddPeer(PeerConfig{RemoteAddress: a, LocalAS: 65000, RemoteAS: as}, c20nopPlugin{})
			if i := find(a); i >= 0 {
				verifAssert("addpeer-existing-key", err == ErrPeerAlreadyExists)
				verifCover("add-existing")
			} else {
				verifAssert("addpeer-new-key", err == nil)
				ref = append(ref, entry{a, as})
			}
		case 1:
			err := s.DeletePeer(a)
			if i := find(a); i >= 0 {
				verifAssert("deletepeer-present", err == nil)
				ref = append(ref[:i:i], ref[i+1:]...)
				verifCover("delete-present")
			} else {
				verifAssert("deletepeer-missing", err == ErrPeerNotExist)
			}
		case 2:
			cfg, err := s.GetPeer(a)
			if i := find(a); i >= 0 {
				verifAssert("getpeer-present", verifAnd(err == nil, verifAnd(cfg.RemoteAS == ref[i].as, cfg.RemoteAddress == a)))
			} else {
				verifAssert("getpeer-missing", err == ErrPeerNotExist)
			}
		case 3:
			l := s.ListPeers()
			verifAssert("listpeers-count", len(l) == len(ref))
			for _, e := range ref {
				n := 0
				for _, c := range l {
					if c.RemoteAddress == e.addr && c.RemoteAS == e.as {
						n++
					}
				}
				verifAssert("listpeers-contains-each-once", n == 1)
			}
			verifCoverIf("list-two", len(ref) == 2)
		}
	}
	// every call released the server lock: one more call returns (a lock left held would be reported as a deadlock here)
	_ = s.ListPeers()
	verifCover("lock-released-after-every-call")
}

// concurrent registry use while serving: mutual exclusion (no happens-before race) and per-key consistency
func Verif_C20_concurrent_registry() {
	verifEngineOnly()
	verifRaceDetect(true)
	d := 2
	if verifTier() >= 1 {
		d = 3
	}
	verifNote("serving server (dial left pending); two goroutines each issue 2 registry operations (symbolically chosen from AddPeer / DeletePeer / GetPeer / ListPeers) on the same remote address: all schedules within 2 (quick) / 3 (thorough) delays, sleep-set reduced; happens-before race detection; results must be consistent per key (AddPeer/DeletePeer results alternate correctly in the order the lock was taken) and the final registry must agree with them")
	s, _ := NewServer(netip.AddrFrom4([4]byte{10, 0, 0, 1}))
	verifDial = &dialScript{outcomes: []dialOutcome{dialPendingThenFail}, mk: func(int) *symConn { return newStagedConn("out") }}
	pl := newMonPlugin()
	ra := netip.AddrFrom4([4]byte{192, 0, 2, 1})
	done := make(chan error, 1)
	go func() { done <- s.Serve(nil) }()
	verifQuiesce()
	verifDelayBound(d)
	type res struct {
		op  int
		err error
		n   int
	}
	var results [2][2]res
	fin := make(chan int, 2)
	for g := 0; g < 2; g++ {
		ops := [2]int{verifChoose("op", 4), verifChoose("op", 4)}
		go func(g int, ops [2]int) {
			for k, op := range ops {
				r := res{op: op}
				switch op {
				case 0:
					r.err = s.AddPeer(PeerConfig{RemoteAddress: ra, LocalAS: 65000, RemoteAS: 65001}, pl)
				case 1:
					r.err = s.DeletePeer(ra)
				case 2:
					_, r.err = s.GetPeer(ra)
				case 3:
					r.n = len(s.ListPeers())
				}
				results[g][k] = r
			}
			fin <- g
		}(g, ops)
	}
	<-fin
	<-fin
	verifDelayBound(0)
	// net effect: successful adds minus successful deletes must be 0 or 1 and equal the final presence
	adds, dels := 0, 0
	for g := 0; g < 2; g++ {
		for k := 0; k < 2; k++ {
			r := results[g][k]
			switch r.op {
			case 0:
				verifAssert("addpeer-result-is-nil-or-already-exists", r.err == nil || r.err == ErrPeerAlreadyExists)
				if r.err == nil {
					adds++
				}
			case 1:
				verifAssert("deletepeer-result-is-nil-or-not-exist", r.err == nil || r.err == ErrPeerNotExist)
				if r.err == nil {
					dels++
				}
			case 2:
				verifAssert("getpeer-result-is-nil-or-not-exist", r.err == nil || r.err == ErrPeerNotExist)
			case 3:
				verifAssert("listpeers-size-0-or-1", r.n == 0 || r.n == 1)
			}
		}
	}
	present := len(s.ListPeers())
	verifAssert("registry-consistent-with-results", adds-dels == present && (present == 0 || present == 1))
	s.Close()
	verifAssert("serve-returns", <-done == ErrServerClosed)
	verifQuiesce()
	verifAssert("no-goroutine-left", verifGoroutines() == 0)
	verifCover("concurrent-registry")
}

// Serve after Close returns ErrServerClosed also when the server was never serving when Close was called
func Verif_C20_serve_after_close_on_a_server_never_served() {
	verifEngineOnly()
	verifNote("fresh server, optionally one active peer added before or after Close (symbolic); Close; then Serve (with a listener): returns ErrServerClosed at once, starts no peer (no dial, no goroutine left), the registry still answers; a second Close returns")
	s, _ := NewServer(netip.AddrFrom4([4]byte{10, 0, 0, 1}))
	ds := &dialScript{outcomes: []dialOutcome{dialPendingThenFail}, mk: func(int) *symConn { return newStagedConn("out") }}
	verifDial = ds
	ra := netip.AddrFrom4([4]byte{192, 0, 2, 1})
	cfg := PeerConfig{RemoteAddress: ra, LocalAS: 65000, RemoteAS: 65001}
	when := verifChoose("addpeer", 3) // 0: none, 1: before Close, 2: after Close
	if when == 1 {
		verifAssert("addpeer-before-close", s.AddPeer(cfg, newMonPlugin()) == nil)
	}
	s.Close()
	if when == 2 {
		verifAssert("addpeer-after-close", s.AddPeer(cfg, newMonPlugin()) == nil)
	}
	lis := newSymListener()
	done := make(chan error, 1)
	go func() { done <- s.Serve([]net.Listener{lis}) }()
	verifQuiesce()
	select {
	case err := <-done:
		verifAssert("serve-after-close-returns-errserverclosed", err == ErrServerClosed)
	default:
		verifAssert("serve-after-close-returns-at-once", false)
	}
	verifAssert("closed-server-starts-no-peer", ds.attempts == 0)
	_, gerr := s.GetPeer(ra)
	verifAssert("registry-still-answers", (gerr == nil) == (when != 0))
	s.Close()
	verifQuiesce()
	verifAssert("no-goroutine-left", verifGoroutines() == 0)
	verifCover("serve-after-close")
}
