//go:build verif && !verifnative

package corebgp

import "time"

// Harness API: body-less declarations intercepted by the gosym engine.
// The native twin with bodies is /verif/native/api_native.go.

func verifU8(name string) uint8
func verifU16(name string) uint16
func verifU32(name string) uint32
func verifU64(name string) uint64
func verifInt(name string) int
func verifBool(name string) bool
func verifBuf(name string, minLen, maxLen int) []byte
func verifAssume(c bool)
func verifAssert(id string, c bool)
func verifAssertKnown(id string, c bool, knownID string, region bool)
func verifAssertBytesEq(id string, a, b []byte)
func verifCover(id string)
func verifCoverIf(id string, c bool)
func verifChoose(name string, n int) int
func verifAnd(a, b bool) bool
func verifOr(a, b bool) bool
func verifNot(a bool) bool
func verifImplies(a, b bool) bool
func verifIff(a, b bool) bool
func verifIteInt(c bool, a, b int) int
func verifIteU8(c bool, a, b uint8) uint8
func verifIteU16(c bool, a, b uint16) uint16
func verifIteU32(c bool, a, b uint32) uint32
func verifIteU64(c bool, a, b uint64) uint64
func verifIteBool(c bool, a, b bool) bool
func verifLoopBound(k int)
func verifDelayBound(d int)
func verifTimerMode(m int)
func verifRaceDetect(on bool)
func verifTier() int
func verifSliceOff(s, base []byte) int
func verifSameArray(a, b []byte) bool
func verifQuiesce()
func verifYield()
func verifGoroutines() int
func verifBlocked() string
func verifGID() int
func verifObserve(tag string, v any)
func verifUnsupported(msg string)
func verifFireTimer(t *time.Timer) bool
func verifTimerArmed(t *time.Timer) bool
func verifTimerDur(t *time.Timer) time.Duration
func verifTimerPending(t *time.Timer) bool
func verifSetNow(ns int64)
func verifEngineOnly()
func verifNote(s string)
func verifAt(b []byte, i int) uint8
func verifAtU32(s []uint32, i int) uint32
func verifWant(id string)
func verifRange(name string, lo, hi int) int
func verifTimerResets(t *time.Timer) int
