//go:build verif

package corebgp

import (
	"net/netip"
	"sync"
)

type syncMutex = sync.Mutex

func netipAddrOf(n NextHopPathAttr) netip.Addr          { return netip.Addr(n) }
func netipAddrOfOrig(o OriginatorIDPathAttr) netip.Addr { return netip.Addr(o) }

// c18u32At reads s[i] or 0 when i is out of range (never panics).
func c18u32At(s []uint32, i int) uint32 { return verifAtU32(s, i) }

func c20zeroMutex() (m syncMutex) { return }

// the other connection direction (own helper: harnesses do not depend on incidental unexported helpers of the library)
func verifOtherDir(i int) int { return 1 - i }

// message type octets (RFC 4271 §4.1): own constants, so that harnesses do not depend on the names of the library's
const (
	verifMsgOpen         uint8 = 1
	verifMsgUpdate       uint8 = 2
	verifMsgNotification uint8 = 3
	verifMsgKeepalive    uint8 = 4
)

// c20Addr returns a symbolic address of a symbolically chosen kind:
// 0 invalid (zero Addr), 1 IPv4, 2 IPv6 (incl. v4-mapped, decided by the bytes), 3 zoned IPv6.
func c20Addr(name string, kinds int) (netip.Addr, int) {
	k := verifChoose(name+"-kind", kinds)
	switch k {
	case 0:
		return netip.Addr{}, 0
	case 1:
		var a [4]byte
		for i := range a {
			a[i] = verifU8(name)
		}
		return netip.AddrFrom4(a), 1
	default:
		var a [16]byte
		for i := range a {
			a[i] = verifU8(name)
		}
		ad := netip.AddrFrom16(a)
		if k == 3 {
			ad = ad.WithZone("eth0")
		}
		return ad, k
	}
}
