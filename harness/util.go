//go:build verif

package corebgp

import (
	"net/netip"
	"sync"
)

type syncMutex = sync.Mutex

func netipAddrOf(n NextHopPathAttr) netip.Addr          { return netip.Addr(n) }
func netipAddrOfOrig(o OriginatorIDPathAttr) netip.Addr { return netip.Addr(o) }

// c18u32At reads s[i] or 0 when i is out of range (never panics).
func c18u32At(s []uint32, i int) uint32 { return verifAtU32(s, i) }

func c20zeroMutex() (m syncMutex) { return }
