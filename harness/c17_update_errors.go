//go:build verif

package corebgp

import (
	"errors"
	"fmt"
)

// C17 — UpdateDecoder reports errors with the RFC 7606 approach they require;
// UpdateNotificationFromErr picks by severity.

type c17foreignUE struct{ n *Notification }

func (f *c17foreignUE) Error() string                 { return "foreign update error" }
func (f *c17foreignUE) AsSessionReset() *Notification { return f.n }

type c17plain struct{}

func (c *c17plain) Error() string { return "plain" }

type c17classes struct {
	notif, taw, ad, otherUE bool
	firstN                  *Notification
	firstTAW                *TreatAsWithdrawUpdateErr
	firstAD                 *AttrDiscardUpdateErr
	firstUE                 UpdateError
}

// c17Walk: reference walker over an error tree using only Unwrap (pre-order).
func c17Walk(err error, c *c17classes, contains error, found *bool, depth int) {
	if err == nil || depth > 8 {
		return
	}
	if contains != nil && err == contains {
		*found = true
	}
	switch x := err.(type) {
	case *Notification:
		if !c.notif {
			c.notif, c.firstN = true, x
		}
	case *TreatAsWithdrawUpdateErr:
		if !c.taw {
			c.taw, c.firstTAW = true, x
		}
	case *AttrDiscardUpdateErr:
		if !c.ad {
			c.ad, c.firstAD = true, x
		}
	case UpdateError:
		if !c.otherUE {
			c.otherUE, c.firstUE = true, x
		}
	}
	switch x := err.(type) {
	case interface{ Unwrap() error }:
		c17Walk(x.Unwrap(), c, contains, found, depth+1)
	case interface{ Unwrap() []error }:
		for _, e := range x.Unwrap() {
			c17Walk(e, c, contains, found, depth+1)
		}
	}
}

func c17Contains(tree, e error) bool {
	var c c17classes
	found := false
	c17Walk(tree, &c, e, &found, 0)
	return found
}

// (a) nil-returning callbacks: Decode is nil exactly for clean UPDATEs, else has the prescribed class.
func c17Structural(tag string, maxLen, A int) {
	verifLoopBound(A + 1)
	b := verifBuf("body", 0, maxLen)
	c16body = b
	e := c16Expected(b, A)
	if !e.aborted && !e.bounded {
		return
	}
	rec := &c16rec{}
	err := c16DecoderWithHistory(b).Decode(rec, b)
	var cl c17classes
	nf := false
	c17Walk(err, &cl, nil, &nf, 0)
	switch {
	case e.aborted:
		verifAssert("framing-fault-is-notification", cl.notif)
		if cl.notif {
			verifAssert("framing-fault-code", cl.firstN.Code == NOTIF_CODE_UPDATE_MESSAGE_ERR)
		}
		verifCover(tag + "framing")
	case e.abortMP:
		verifAssert("repeated-mp-is-notification", cl.notif)
		if cl.notif {
			verifAssert("repeated-mp-code", cl.firstN.Code == NOTIF_CODE_UPDATE_MESSAGE_ERR)
		}
		verifCover(tag + "repeated-mp")
	default:
		announces := verifOr(e.nlriLen > 0, e.seen14)
		missing := verifAnd(announces, !verifAnd(e.seen1, e.seen2))
		faulty := verifOr(e.overrun, missing)
		if err == nil {
			verifAssert("nil-only-for-clean-update", !faulty)
			verifCover(tag + "clean")
			return
		}
		verifAssert("error-only-for-faulty-update", faulty)
		verifAssert("no-session-reset-for-withdraw-class-fault", !cl.notif)
		verifAssert("withdraw-class-fault-is-treat-as-withdraw", cl.taw)
		if e.overrun {
			verifCover(tag + "attr-overrun")
		}
		// missing mandatory attribute: fallback notification (3,3,[missing code])
		if !e.overrun && cl.taw {
			t := cl.firstTAW
			verifAssert("missing-attr-code-is-missing", verifOr(verifAnd(t.Code == PATH_ATTR_ORIGIN, !e.seen1), verifAnd(t.Code == PATH_ATTR_AS_PATH, !e.seen2)))
			if t.Notification == nil {
				verifAssert("missing-attr-fallback-notification", false)
			} else {
				verifAssert("missing-attr-fallback-code", t.Notification.Code == NOTIF_CODE_UPDATE_MESSAGE_ERR)
				verifAssert("missing-attr-fallback-subcode", t.Notification.Subcode == NOTIF_SUBCODE_MISSING_WELL_KNOWN_ATTR)
				verifAssert("missing-attr-fallback-data", verifAnd(len(t.Notification.Data) == 1, verifAt(t.Notification.Data, 0) == t.Code))
			}
			verifCover(tag + "missing-mandatory")
		}
	}
}

func Verif_C17_structural_small() {
	n := 12
	if verifTier() >= 1 {
		n = 14
	}
	verifNote("C17(a): every UPDATE body of length <= 12 (quick) / 14 (thorough), callbacks return nil")
	for _, w := range []string{"framing", "repeated-mp", "clean", "attr-overrun", "missing-mandatory"} {
		verifWant("small-" + w)
	}
	c17Structural("small-", n, 4)
}

// a decoder object that has already decoded another UPDATE classifies the next one like a fresh decoder
func Verif_C17_decoder_reuse() {
	n := 10
	if verifTier() >= 1 {
		n = 12
	}
	verifNote("C17(a) on a decoder object that has already decoded one UPDATE (the 4 histories of Verif_C16_decoder_reuse): every body of length <= 10 (quick) / 12 (thorough)")
	c16Hist = 1 + verifChoose("history", 4)
	for _, w := range []string{"clean", "missing-mandatory"} {
		verifWant("reuse-" + w)
	}
	c17Structural("reuse-", n, 3)
}

func Verif_C17_structural_lengths() {
	A := 1
	if verifTier() >= 1 {
		A = 2
	}
	verifNote("C17(a): UPDATE bodies of symbolic length up to 2^17+8 with at most A attribute headers (1 quick / 2 thorough)")
	for _, w := range []string{"framing", "clean", "attr-overrun", "missing-mandatory"} {
		verifWant("big-" + w)
	}
	c17Structural("big-", 1<<17+8, A)
}

// (b) callback verdicts on a fixed well-formed UPDATE: withdrawn(1 prefix) + ORIGIN + AS_PATH + NLRI(1 prefix).
func c17Verdict(k int, tagN uint8) error {
	switch k {
	case 0:
		return nil
	case 1:
		return &AttrDiscardUpdateErr{Code: tagN}
	case 2:
		return &TreatAsWithdrawUpdateErr{Code: tagN, Notification: &Notification{Code: 3, Subcode: tagN}}
	case 3:
		return &Notification{Code: 3, Subcode: tagN}
	case 4:
		return errors.Join(&c17plain{}, fmt.Errorf("wrapped: %w", &Notification{Code: 3, Subcode: tagN}))
	default:
		return &c17foreignUE{n: &Notification{Code: 3, Subcode: tagN}}
	}
}

func c17VerdictHasNotif(k int) bool { return k == 3 || k == 4 }

func Verif_C17_callback_verdicts() {
	verifNote("C17(b): fixed well-formed UPDATE (withdrawn + ORIGIN + AS_PATH + NLRI), each of the 4 callbacks returns a verdict from a 6-entry menu (nil, attr-discard, treat-as-withdraw, *Notification, Join(plain, wrapped *Notification), foreign UpdateError): all 6^4 combinations")
	body := []byte{0, 2, 8, 10, // withdrawn: 10.0.0.0/8
		0, 13, // total path attribute length
		0x40, 1, 1, 0, // ORIGIN IGP
		0x40, 2, 6, 2, 1, 0, 0, 0xfd, 0xe8, // AS_PATH seq [65000]
		8, 11} // NLRI 11.0.0.0/8
	c16body = body
	var ks [4]int
	var vs [4]error
	for i := 0; i < 4; i++ {
		ks[i] = verifChoose("verdict", 6)
		vs[i] = c17Verdict(ks[i], uint8(i+1))
	}
	rec := &c16rec{}
	rec.verdict = func(kind, idx int) error {
		switch kind {
		case 0:
			return vs[0]
		case 1:
			return vs[1+idx]
		}
		return vs[3]
	}
	err := c16Decoder().Decode(rec, body)
	// reference: callbacks run in order until one returns a verdict containing a *Notification
	stopAt := 4
	for i := 0; i < 4; i++ {
		if c17VerdictHasNotif(ks[i]) {
			stopAt = i
			break
		}
	}
	wantCalls := stopAt + 1
	if stopAt == 4 {
		wantCalls = 4
	}
	verifAssert("decoding-stops-at-session-reset-verdict", len(rec.calls) == wantCalls)
	allNil := true
	var cl c17classes
	nf := false
	c17Walk(err, &cl, nil, &nf, 0)
	anyTAW, anyAD, anyUE := false, false, false
	for i := 0; i < wantCalls && i < 4; i++ {
		if vs[i] != nil {
			allNil = false
			verifAssert("tree-contains-every-returned-error", c17Contains(err, vs[i]))
		}
		switch ks[i] {
		case 1:
			anyAD = true
		case 2:
			anyTAW = true
		case 5:
			anyUE = true
		}
	}
	verifAssert("nil-iff-all-verdicts-nil", (err == nil) == allNil)
	verifAssert("session-reset-class-iff-stopped", cl.notif == (stopAt < 4))
	verifAssert("treat-as-withdraw-present-iff-returned", cl.taw == anyTAW)
	verifAssert("attr-discard-present-iff-returned", cl.ad == anyAD)
	verifAssert("other-update-error-present-iff-returned", cl.otherUE == anyUE)
	verifCover("verdicts")
}

// (c) UpdateNotificationFromErr over error trees built with errors.Join / %w wrapping.
type c17gen struct{ depth int }

func (g *c17gen) tree(d int) error {
	nk := 7
	if d <= 0 {
		nk = 5
	}
	switch verifChoose("node", nk) {
	case 0:
		return &Notification{Code: verifU8("nc"), Subcode: verifU8("ns")}
	case 1:
		if verifChoose("taw-notif", 2) == 0 {
			return &TreatAsWithdrawUpdateErr{Code: verifU8("tc")}
		}
		return &TreatAsWithdrawUpdateErr{Code: verifU8("tc"), Notification: &Notification{Code: 3, Subcode: verifU8("ts")}}
	case 2:
		if verifChoose("ad-notif", 2) == 0 {
			return &AttrDiscardUpdateErr{Code: verifU8("ac")}
		}
		return &AttrDiscardUpdateErr{Code: verifU8("ac"), Notification: &Notification{Code: 3, Subcode: verifU8("as")}}
	case 3:
		return &c17foreignUE{n: &Notification{Code: verifU8("fc"), Subcode: verifU8("fs")}}
	case 4:
		return &c17plain{}
	case 5:
		return fmt.Errorf("wrap: %w", g.tree(d-1))
	default:
		return errors.Join(g.tree(d-1), g.tree(d-1))
	}
}

func Verif_C17_notification_from_err() {
	d := 1
	if verifTier() >= 1 {
		d = 2
	}
	verifNote("C17(c): every error tree of depth <= 2 (quick) / 3 (thorough), fan-out 2, over {*Notification, TreatAsWithdraw (with/without fallback), AttrDiscard (with/without), foreign UpdateError, plain error, %w wrapper, errors.Join}; scalar fields symbolic; foreign UpdateError honours its contract (non-nil AsSessionReset)")
	verifAssert("nil-maps-to-nil", UpdateNotificationFromErr(nil) == nil)
	g := &c17gen{}
	err := g.tree(d)
	got := UpdateNotificationFromErr(err)
	var cl c17classes
	nf := false
	c17Walk(err, &cl, nil, &nf, 0)
	if got == nil {
		verifAssert("non-nil-error-gives-notification", false)
		return
	}
	switch {
	case cl.notif:
		verifAssert("picks-first-notification", got == cl.firstN)
		verifCover("sev-notification")
	case cl.taw:
		if cl.firstTAW.Notification != nil {
			verifAssert("picks-first-treat-as-withdraw", got == cl.firstTAW.Notification)
		} else {
			verifAssert("treat-as-withdraw-without-fallback-gives-generic", verifAnd(got.Code == NOTIF_CODE_UPDATE_MESSAGE_ERR, verifAnd(got.Subcode == 0, len(got.Data) == 0)))
		}
		verifCover("sev-treat-as-withdraw")
	case cl.ad:
		if cl.firstAD.Notification != nil {
			verifAssert("picks-first-attr-discard", got == cl.firstAD.Notification)
		} else {
			verifAssert("attr-discard-without-fallback-gives-generic", verifAnd(got.Code == NOTIF_CODE_UPDATE_MESSAGE_ERR, verifAnd(got.Subcode == 0, len(got.Data) == 0)))
		}
		verifCover("sev-attr-discard")
	case cl.otherUE:
		verifAssert("picks-first-other-update-error", got == cl.firstUE.AsSessionReset())
		verifCover("sev-other-update-error")
	default:
		verifAssert("generic-update-message-error", verifAnd(got.Code == NOTIF_CODE_UPDATE_MESSAGE_ERR, verifAnd(got.Subcode == 0, len(got.Data) == 0)))
		verifCover("sev-generic")
	}
}
