//go:build verif

package corebgp

// C18 — typed path-attribute decoders accept exactly well-formed attributes.

func c18FlagsOK(flags PathAttrFlags, wantOptional, wantTransitive bool) bool {
	opt := uint8(flags)&0x80 != 0
	tr := uint8(flags)&0x40 != 0
	return verifAnd(opt == wantOptional, tr == wantTransitive)
}

// c18Expect checks the verdict of a decoder against the reference verdict.
// ok: reference says well-formed. wantAD: RFC 7606 approach is attribute-discard
// (else treat-as-withdraw). wantSub: RFC 4271 subcode for a value/length fault.
// altSub: second admissible subcode (AS_PATH: 11 or 5); 0 = none.
func c18Expect(name string, err error, ok, flagsOK, wantAD bool, wantSub, altSub uint8, known string, region bool) {
	if err == nil {
		verifAssertKnown(name+"-accept-only-wellformed", ok, known, region)
		verifCover(name + "-accepted")
		return
	}
	verifAssertKnown(name+"-reject-only-malformed", !ok, known, region)
	verifCover(name + "-rejected")
	var n *Notification
	switch e := err.(type) {
	case *TreatAsWithdrawUpdateErr:
		verifAssertKnown(name+"-approach", verifOr(!flagsOK, !wantAD), known, region)
		n = e.Notification
	case *AttrDiscardUpdateErr:
		verifAssertKnown(name+"-approach", verifAnd(flagsOK, wantAD), known, region)
		n = e.Notification
	default:
		verifAssert(name+"-approach-class", false)
		return
	}
	if n == nil {
		verifAssert(name+"-fallback-notification-present", false)
		return
	}
	verifAssert(name+"-notif-code", n.Code == NOTIF_CODE_UPDATE_MESSAGE_ERR)
	subOK := verifIteBool(flagsOK,
		verifOr(n.Subcode == wantSub, verifAnd(altSub != 0, n.Subcode == altSub)),
		n.Subcode == NOTIF_SUBCODE_ATTR_FLAGS_ERR)
	verifAssertKnown(name+"-notif-subcode", subOK, known, region)
}

func Verif_C18_origin() {
	flags := PathAttrFlags(verifU8("flags"))
	b := verifBuf("val", 0, 4096)
	var o OriginPathAttr = 0xEE
	err := o.Decode(flags, b)
	fok := c18FlagsOK(flags, false, true)
	vok := verifAnd(len(b) == 1, verifAt(b, 0) <= 2)
	c18Expect("origin", err, verifAnd(fok, vok), fok, false,
		verifIteU8(len(b) != 1, NOTIF_SUBCODE_ATTR_LEN_ERR, NOTIF_SUBCODE_INVALID_ORIGIN_ATTR), 0, "", false)
	if err == nil {
		verifAssert("origin-value", uint8(o) == verifAt(b, 0))
	}
}

func c18be32(b []byte, off int) uint32 {
	return uint32(verifAt(b, off))<<24 | uint32(verifAt(b, off+1))<<16 | uint32(verifAt(b, off+2))<<8 | uint32(verifAt(b, off+3))
}

func c18MaxLen() int {
	// value lengths are symbolic up to 4096 (incl. > 255: extended-length notification data)
	return 4096
}

func c18ElemBound() int {
	if verifTier() >= 1 {
		return 5
	}
	return 3
}

func Verif_C18_flag_accessors() {
	f := verifU8("flags")
	p := PathAttrFlags(f)
	verifAssert("acc-optional", p.Optional() == (f&0x80 != 0))
	verifAssert("acc-transitive", p.Transitive() == (f&0x40 != 0))
	verifAssert("acc-partial", p.Partial() == (f&0x20 != 0))
	verifAssert("acc-extlen", p.ExtendedLen() == (f&0x10 != 0))
	verifCover("accessors")
}

func Verif_C18_next_hop() {
	flags := PathAttrFlags(verifU8("flags"))
	b := verifBuf("val", 0, c18MaxLen())
	var n NextHopPathAttr
	err := n.Decode(flags, b)
	fok := c18FlagsOK(flags, false, true)
	c18Expect("nexthop", err, verifAnd(fok, len(b) == 4), fok, false, NOTIF_SUBCODE_ATTR_LEN_ERR, 0, "", false)
	if err == nil {
		a := netipAddrOf(n).As4()
		verifAssert("nexthop-value", verifAnd(verifAnd(a[0] == verifAt(b, 0), a[1] == verifAt(b, 1)), verifAnd(a[2] == verifAt(b, 2), a[3] == verifAt(b, 3))))
	}
}

func Verif_C18_med() {
	flags := PathAttrFlags(verifU8("flags"))
	b := verifBuf("val", 0, c18MaxLen())
	var m MEDPathAttr = 0xEEEEEEEE
	err := m.Decode(flags, b)
	fok := c18FlagsOK(flags, true, false)
	c18Expect("med", err, verifAnd(fok, len(b) == 4), fok, false, NOTIF_SUBCODE_ATTR_LEN_ERR, 0, "", false)
	if err == nil {
		verifAssert("med-value", uint32(m) == c18be32(b, 0))
	}
}

func Verif_C18_local_pref() {
	flags := PathAttrFlags(verifU8("flags"))
	b := verifBuf("val", 0, c18MaxLen())
	var l LocalPrefPathAttr = 0xEEEEEEEE
	err := l.Decode(flags, b)
	fok := c18FlagsOK(flags, false, true)
	c18Expect("localpref", err, verifAnd(fok, len(b) == 4), fok, false, NOTIF_SUBCODE_ATTR_LEN_ERR, 0, "", false)
	if err == nil {
		verifAssert("localpref-value", uint32(l) == c18be32(b, 0))
	}
}

// ATOMIC_AGGREGATE is well-known discretionary (RFC 4271 §5.1.6): Optional=0, Transitive=1.
// Known finding C18-atomic-aggregate-optional-bit: the implementation demands Optional=1.
// Region: Transitive bit set (where the two readings of the Optional bit diverge).
func Verif_C18_atomic_aggregate() {
	flags := PathAttrFlags(verifU8("flags"))
	b := verifBuf("val", 0, c18MaxLen())
	var a AtomicAggregatePathAttr
	err := a.Decode(flags, b)
	fok := c18FlagsOK(flags, false, true)
	region := uint8(flags)&0x40 != 0
	c18Expect("atomicagg", err, verifAnd(fok, len(b) == 0), fok, true, NOTIF_SUBCODE_ATTR_LEN_ERR, 0, "C18-atomic-aggregate-optional-bit", region)
	if err == nil {
		verifAssert("atomicagg-value", bool(a))
	}
}

func Verif_C18_aggregator() {
	flags := PathAttrFlags(verifU8("flags"))
	b := verifBuf("val", 0, c18MaxLen())
	var a AggregatorPathAttr
	err := a.Decode(flags, b)
	fok := c18FlagsOK(flags, true, true)
	c18Expect("aggregator", err, verifAnd(fok, len(b) == 8), fok, true, NOTIF_SUBCODE_ATTR_LEN_ERR, 0, "", false)
	if err == nil {
		verifAssert("aggregator-as", a.AS == c18be32(b, 0))
		ip := a.IP.As4()
		verifAssert("aggregator-ip", verifAnd(verifAnd(ip[0] == verifAt(b, 4), ip[1] == verifAt(b, 5)), verifAnd(ip[2] == verifAt(b, 6), ip[3] == verifAt(b, 7))))
	}
}

func Verif_C18_originator_id() {
	flags := PathAttrFlags(verifU8("flags"))
	b := verifBuf("val", 0, c18MaxLen())
	var o OriginatorIDPathAttr
	err := o.Decode(flags, b)
	fok := c18FlagsOK(flags, true, false)
	c18Expect("originator", err, verifAnd(fok, len(b) == 4), fok, false, NOTIF_SUBCODE_ATTR_LEN_ERR, 0, "", false)
	if err == nil {
		a := netipAddrOfOrig(o).As4()
		verifAssert("originator-value", verifAnd(verifAnd(a[0] == verifAt(b, 0), a[1] == verifAt(b, 1)), verifAnd(a[2] == verifAt(b, 2), a[3] == verifAt(b, 3))))
	}
}

func Verif_C18_communities() {
	k := c18ElemBound()
	verifLoopBound(k)
	verifNote("COMMUNITIES / CLUSTER_LIST / LARGE_COMMUNITIES: at most the unwinding bound of elements per attribute; longer values are cut (see bounds_hit)")
	flags := PathAttrFlags(verifU8("flags"))
	b := verifBuf("val", 0, c18MaxLen())
	var c CommunitiesPathAttr
	err := c.Decode(flags, b)
	fok := c18FlagsOK(flags, true, true)
	vok := verifAnd(len(b) >= 4, len(b)%4 == 0)
	c18Expect("communities", err, verifAnd(fok, vok), fok, false, NOTIF_SUBCODE_ATTR_LEN_ERR, 0, "", false)
	if err == nil {
		verifAssert("communities-count", len(c)*4 == len(b))
		j := verifInt("j")
		verifAssume(verifAnd(j >= 0, j < len(c)))
		verifAssert("communities-value", c[j] == c18be32(b, 4*j))
		verifCoverIf("communities-three", len(c) == 3)
	}
}

func Verif_C18_cluster_list() {
	k := c18ElemBound()
	verifLoopBound(k)
	flags := PathAttrFlags(verifU8("flags"))
	b := verifBuf("val", 0, c18MaxLen())
	var c ClusterListPathAttr
	err := c.Decode(flags, b)
	fok := c18FlagsOK(flags, true, false)
	vok := verifAnd(len(b) >= 4, len(b)%4 == 0)
	c18Expect("clusterlist", err, verifAnd(fok, vok), fok, false, NOTIF_SUBCODE_ATTR_LEN_ERR, 0, "", false)
	if err == nil {
		verifAssert("clusterlist-count", len(c)*4 == len(b))
		for j := 0; j < len(c); j++ {
			a := c[j].As4()
			verifAssert("clusterlist-value", verifAnd(verifAnd(a[0] == verifAt(b, 4*j), a[1] == verifAt(b, 4*j+1)), verifAnd(a[2] == verifAt(b, 4*j+2), a[3] == verifAt(b, 4*j+3))))
		}
		verifCoverIf("clusterlist-two", len(c) == 2)
	}
}

func Verif_C18_large_communities() {
	k := c18ElemBound()
	verifLoopBound(k)
	flags := PathAttrFlags(verifU8("flags"))
	b := verifBuf("val", 0, c18MaxLen())
	var l LargeCommunitiesPathAttr
	err := l.Decode(flags, b)
	fok := c18FlagsOK(flags, true, true)
	vok := verifAnd(len(b) >= 12, len(b)%12 == 0)
	c18Expect("largecomm", err, verifAnd(fok, vok), fok, false, NOTIF_SUBCODE_ATTR_LEN_ERR, 0, "", false)
	if err == nil {
		verifAssert("largecomm-count", len(l)*12 == len(b))
		for j := 0; j < len(l); j++ {
			verifAssert("largecomm-value", verifAnd(l[j].GlobalAdmin == c18be32(b, 12*j),
				verifAnd(l[j].LocalData1 == c18be32(b, 12*j+4), l[j].LocalData2 == c18be32(b, 12*j+8))))
		}
		verifCoverIf("largecomm-two", len(l) == 2)
	}
}

// AS_PATH: reference walk over at most S segments, written over offsets.
func Verif_C18_as_path() {
	S := 2
	if verifTier() >= 1 {
		S = 3
	}
	verifLoopBound(c18ElemBound())
	verifNote("AS_PATH: at most S segments (2 quick / 3 thorough) and at most the unwinding bound of AS numbers per segment; confederation segment types 3/4 are don't-care (property silent)")
	flags := PathAttrFlags(verifU8("flags"))
	b := verifBuf("val", 0, c18MaxLen())
	L := len(b)
	fok := c18FlagsOK(flags, false, true)
	// reference parse
	off := 0
	ok := true
	confed := false
	var segOn [4]bool
	var segTyp [4]uint8
	var segCnt [4]int
	var segOff [4]int
	for s := 0; s < S; s++ {
		active := verifAnd(ok, off < L)
		typ := verifAt(b, off)
		cnt := int(verifAt(b, off+1))
		end := off + 2 + 4*cnt
		segOK := verifAnd(verifAnd(off+2 <= L, verifOr(typ == 1, typ == 2)), verifAnd(cnt >= 1, end <= L))
		confed = verifOr(confed, verifAnd(active, verifAnd(off+2 <= L, verifOr(typ == 3, typ == 4))))
		good := verifAnd(active, segOK)
		segOn[s], segTyp[s], segCnt[s], segOff[s] = good, typ, cnt, off
		ok = verifIteBool(active, segOK, ok)
		off = verifIteInt(good, end, off)
	}
	// bound: the value holds at most S segments
	verifAssume(verifOr(!ok, off == L))
	verifAssume(!confed)
	wf := verifAnd(ok, off == L)
	var a ASPathAttr
	err := a.Decode(flags, b)
	c18Expect("aspath", err, verifAnd(fok, wf), fok, false, NOTIF_SUBCODE_MALFORMED_AS_PATH, NOTIF_SUBCODE_ATTR_LEN_ERR, "", false)
	if err != nil {
		return
	}
	// no AS number lost: per type, the decoded list is the concatenation of the segments of that type
	nSeq, nSet := 0, 0
	for s := 0; s < S; s++ {
		nSeq = verifIteInt(verifAnd(segOn[s], segTyp[s] == 2), nSeq+segCnt[s], nSeq)
		nSet = verifIteInt(verifAnd(segOn[s], segTyp[s] == 1), nSet+segCnt[s], nSet)
	}
	verifAssert("aspath-sequence-count", len(a.ASSequence) == nSeq)
	verifAssert("aspath-set-count", len(a.ASSet) == nSet)
	baseSeq, baseSet := 0, 0
	for s := 0; s < S; s++ {
		j := verifInt("j")
		inSeg := verifAnd(j >= 0, j < segCnt[s])
		isSeq := verifAnd(inSeg, verifAnd(segOn[s], segTyp[s] == 2))
		isSet := verifAnd(inSeg, verifAnd(segOn[s], segTyp[s] == 1))
		want := c18be32(b, segOff[s]+2+4*j)
		verifAssert("aspath-sequence-value", verifImplies(isSeq, c18u32At(a.ASSequence, baseSeq+j) == want))
		verifAssert("aspath-set-value", verifImplies(isSet, c18u32At(a.ASSet, baseSet+j) == want))
		baseSeq = verifIteInt(verifAnd(segOn[s], segTyp[s] == 2), baseSeq+segCnt[s], baseSeq)
		baseSet = verifIteInt(verifAnd(segOn[s], segTyp[s] == 1), baseSet+segCnt[s], baseSet)
	}
	verifCoverIf("aspath-two-sequence-segments", verifAnd(verifAnd(segOn[0], segOn[1]), verifAnd(segTyp[0] == 2, segTyp[1] == 2)))
	verifCoverIf("aspath-set-and-sequence", verifAnd(verifAnd(segOn[0], segOn[1]), segTyp[0] != segTyp[1]))
	verifCoverIf("aspath-empty", L == 0)
}

// Boundary element counts: the element loops are executed concretely (count and length
// chosen from a boundary menu), the contents stay symbolic — reaches the 8-bit / extended
// length boundaries (63/64/65, 127/128, 255 elements; > 255-byte values) that the
// symbolic-length harnesses cut at their unwinding bound.
var c18Counts = []int{1, 2, 63, 64, 65, 127, 128, 255}

func VerifT_C18_as_path_boundary_counts() {
	verifNote("AS_PATH with 1 segment of {1,63,64,65,255} AS numbers (quick) / 1..2 segments of {1,64,255} (thorough) (element loops run concretely), segment types and all AS-number bytes symbolic, flags well-formed")
	ns := 1
	counts := []int{1, 63, 64, 65, 255}
	if verifTier() >= 1 {
		ns = 1 + verifChoose("segments", 2)
		counts = []int{1, 64, 255}
	}
	var val []byte
	type seg struct {
		typ uint8
		cnt int
		off int
	}
	var segs []seg
	for s := 0; s < ns; s++ {
		cnt := counts[verifChoose("count", len(counts))]
		typ := verifU8("segtype")
		verifAssume(verifOr(typ == 1, typ == 2))
		segs = append(segs, seg{typ, cnt, len(val)})
		val = append(val, typ, byte(cnt))
		val = append(val, verifBuf("asns", 4*cnt, 4*cnt)...)
	}
	var a ASPathAttr
	err := a.Decode(PathAttrFlags(0x40), val)
	verifAssert("wellformed-long-as-path-accepted", err == nil)
	if err != nil {
		return
	}
	nSeq, nSet := 0, 0
	for _, sg := range segs {
		nSeq = verifIteInt(sg.typ == 2, nSeq+sg.cnt, nSeq)
		nSet = verifIteInt(sg.typ == 1, nSet+sg.cnt, nSet)
	}
	verifAssert("no-as-number-lost-sequence", len(a.ASSequence) == nSeq)
	verifAssert("no-as-number-lost-set", len(a.ASSet) == nSet)
	baseSeq, baseSet := 0, 0
	for _, sg := range segs {
		j := verifRange("j", 0, sg.cnt-1)
		want := c18be32(val, sg.off+2+4*j)
		verifAssert("as-number-value-sequence", verifImplies(sg.typ == 2, c18u32At(a.ASSequence, baseSeq+j) == want))
		verifAssert("as-number-value-set", verifImplies(sg.typ == 1, c18u32At(a.ASSet, baseSet+j) == want))
		baseSeq = verifIteInt(sg.typ == 2, baseSeq+sg.cnt, baseSeq)
		baseSet = verifIteInt(sg.typ == 1, baseSet+sg.cnt, baseSet)
	}
	verifCover("long-as-path")
}

func VerifT_C18_set_attrs_boundary_counts() {
	verifNote("COMMUNITIES / CLUSTER_LIST / LARGE_COMMUNITIES with element counts from {1,2,63,64,65,127,128,255} (+/- 1 byte), contents symbolic; error notifications carry > 255-byte values in extended-length form")
	cnt := c18Counts[verifChoose("count", len(c18Counts))]
	delta := verifChoose("length-delta", 3) - 1 // -1, 0, +1 byte
	switch verifChoose("attr", 3) {
	case 0:
		b := verifBuf("val", 4*cnt+delta, 4*cnt+delta)
		var c CommunitiesPathAttr
		err := c.Decode(PathAttrFlags(0xC0), b)
		verifAssert("communities-accept-iff-multiple-of-4", (err == nil) == (delta == 0))
		if err == nil {
			verifAssert("communities-count", len(c) == cnt)
			j := verifRange("j", 0, cnt-1)
			verifAssert("communities-value", c[j] == c18be32(b, 4*j))
		} else {
			c18LenErrData("communities", err, PATH_ATTR_COMMUNITY, b)
		}
	case 1:
		b := verifBuf("val", 4*cnt+delta, 4*cnt+delta)
		var c ClusterListPathAttr
		err := c.Decode(PathAttrFlags(0x80), b)
		verifAssert("clusterlist-accept-iff-multiple-of-4", (err == nil) == (delta == 0))
		if err == nil {
			verifAssert("clusterlist-count", len(c) == cnt)
		} else {
			c18LenErrData("clusterlist", err, PATH_ATTR_CLUSTER_LIST, b)
		}
	case 2:
		b := verifBuf("val", 12*cnt+delta, 12*cnt+delta)
		var l LargeCommunitiesPathAttr
		err := l.Decode(PathAttrFlags(0xC0), b)
		verifAssert("largecomm-accept-iff-multiple-of-12", (err == nil) == (delta == 0))
		if err == nil {
			verifAssert("largecomm-count", len(l) == cnt)
		} else {
			c18LenErrData("largecomm", err, PATH_ATTR_LARGE_COMMUNITY, b)
		}
	}
	verifCover("boundary-counts")
}

// c18LenErrData: length fault => treat-as-withdraw, (3,5), data = code | length (1 or 2 octets) | value
func c18LenErrData(name string, err error, code uint8, b []byte) {
	t, ok := err.(*TreatAsWithdrawUpdateErr)
	verifAssert(name+"-length-fault-is-treat-as-withdraw", ok)
	if !ok || t.Notification == nil {
		return
	}
	n := t.Notification
	verifAssert(name+"-length-fault-subcode", n.Code == NOTIF_CODE_UPDATE_MESSAGE_ERR && n.Subcode == NOTIF_SUBCODE_ATTR_LEN_ERR)
	hdr := 2
	if len(b) > 255 {
		hdr = 3
	}
	verifAssert(name+"-data-length", len(n.Data) == hdr+len(b))
	verifAssert(name+"-data-code", verifAt(n.Data, 0) == code)
	if len(b) > 255 {
		verifAssert(name+"-data-extended-length", int(verifAt(n.Data, 1))<<8|int(verifAt(n.Data, 2)) == len(b))
	} else {
		verifAssert(name+"-data-length-octet", int(verifAt(n.Data, 1)) == len(b))
	}
	k := verifRange("dk", 0, len(b)-1)
	verifAssert(name+"-data-value", verifAt(n.Data, hdr+k) == verifAt(b, k))
}
