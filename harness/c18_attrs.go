//go:build verif

package corebgp

// C18 — typed path-attribute decoders accept exactly well-formed attributes.

func c18FlagsOK(flags PathAttrFlags, wantOptional, wantTransitive bool) bool {
	opt := uint8(flags)&0x80 != 0
	tr := uint8(flags)&0x40 != 0
	return verifAnd(opt == wantOptional, tr == wantTransitive)
}

// c18Expect checks the verdict of a decoder against the reference verdict.
// ok: reference says well-formed. wantAD: RFC 7606 approach is attribute-discard
// (else treat-as-withdraw). wantSub: RFC 4271 subcode for a value/length fault.
// altSub: second admissible subcode (AS_PATH: 11 or 5); 0 = none.
func c18Expect(name string, err error, ok, flagsOK, wantAD bool, wantSub, altSub uint8, known string, region bool) {
	if err == nil {
		verifAssertKnown(name+"-accept-only-wellformed", ok, known, region)
		verifCover(name + "-accepted")
		return
	}
	verifAssertKnown(name+"-reject-only-malformed", !ok, known, region)
	verifCover(name + "-rejected")
	var n *Notification
	switch e := err.(type) {
	case *TreatAsWithdrawUpdateErr:
		verifAssertKnown(name+"-approach", verifOr(!flagsOK, !wantAD), known, region)
		n = e.Notification
	case *AttrDiscardUpdateErr:
		verifAssertKnown(name+"-approach", verifAnd(flagsOK, wantAD), known, region)
		n = e.Notification
	default:
		verifAssert(name+"-approach-class", false)
		return
	}
	if n == nil {
		verifAssert(name+"-fallback-notification-present", false)
		return
	}
	verifAssert(name+"-notif-code", n.Code == NOTIF_CODE_UPDATE_MESSAGE_ERR)
	subOK := verifIteBool(flagsOK,
		verifOr(n.Subcode == wantSub, verifAnd(altSub != 0, n.Subcode == altSub)),
		n.Subcode == NOTIF_SUBCODE_ATTR_FLAGS_ERR)
	verifAssertKnown(name+"-notif-subcode", subOK, known, region)
}

func Verif_C18_origin() {
	flags := PathAttrFlags(verifU8("flags"))
	b := verifBuf("val", 0, 4096)
	var o OriginPathAttr = 0xEE
	err := o.Decode(flags, b)
	fok := c18FlagsOK(flags, false, true)
	vok := verifAnd(len(b) == 1, verifAt(b, 0) <= 2)
	c18Expect("origin", err, verifAnd(fok, vok), fok, false,
		verifIteU8(len(b) != 1, NOTIF_SUBCODE_ATTR_LEN_ERR, NOTIF_SUBCODE_INVALID_ORIGIN_ATTR), 0, "", false)
	if err == nil {
		verifAssert("origin-value", uint8(o) == verifAt(b, 0))
	}
}
