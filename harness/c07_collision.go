//go:build verif

package corebgp

// C07 — connection collision is resolved per RFC 4271 §6.8, in every arrival order.
// Real peer.start(): real manager, both real FSMs, real readers; remote side scripted.

type c07env struct {
	cfg      symCfg
	remoteID uint32
	pl       *monPlugin
	p        *peer
	out, in  *symConn
}

func c07Setup(delays int) *c07env {
	verifEngineOnly()
	verifDelayBound(0) // start-up up to "both in OpenSent" runs under the base schedule
	e := &c07env{}
	e.cfg = symConfig()
	verifAssume(e.cfg.holdSec >= 3)
	e.remoteID = verifU32("remoteID")
	// what validate() guarantees about an accepted OPEN
	verifAssume(verifAnd(e.remoteID>>24 < 224, verifNot(verifAnd(e.cfg.localAS == e.cfg.remoteAS, e.cfg.localID == e.remoteID))))
	e.pl = newMonPlugin()
	e.p = mkPeer(e.cfg, e.pl)
	e.out = newStagedConn("out")
	e.in = newStagedConn("in")
	verifDial = &dialScript{outcomes: []dialOutcome{dialOK, dialPendingThenFail}, mk: func(int) *symConn { return e.out }}
	e.p.start()
	verifQuiesce()
	e.p.incomingConnection(e.in)
	verifQuiesce()
	verifDelayBound(delays) // schedule budget for the phase under test
	return e
}

func (e *c07env) conn(i int) *symConn {
	if i == out {
		return e.out
	}
	return e.in
}

func (e *c07env) openBody() []byte { return mkOpenBody(e.cfg.remoteAS, 90, e.remoteID) }

func Verif_C07_collision_resolution() {
	verifNote("real peer.start(): outbound FSM dials (scripted dial succeeds), inbound connection injected, both reach OpenSent; the remote's OPENs arrive in a symbolically chosen order with quiescence in between (so either connection reaches OpenConfirm first); local/remote identifier and AS symbolic 32-bit; start-up to 'both in OpenSent' under the base schedule, then all schedules with at most 2 (quick) / 3 (thorough) delays (sleep-set reduced); then KEEPALIVE on the survivor")
	d := 2
	if verifTier() >= 1 {
		d = 3
	}
	e := c07Setup(d)
	verifAssert("both-sent-open", e.out.wroteOpenFirst() && e.in.wroteOpenFirst())
	first := verifChoose("first-to-openconfirm", 2)
	second := verifOtherDir(first)
	e.conn(first).send(verifMsgOpen, e.openBody())
	verifQuiesce()
	e.conn(second).send(verifMsgOpen, e.openBody())
	verifQuiesce()
	localDominant := verifOr(e.cfg.localID > e.remoteID, verifAnd(e.cfg.localID == e.remoteID, e.cfg.localAS > e.cfg.remoteAS))
	// survivor: the connection initiated by the dominant speaker = out iff local dominant
	keepOut := verifChooseBool(localDominant)
	surv, loser := e.in, e.out
	if keepOut {
		surv, loser = e.out, e.in
	}
	verifAssert("loser-closed", loser.closed)
	verifAssert("loser-got-cease", loser.lastIsCease())
	verifAssert("survivor-not-closed", !surv.closed)
	verifAssert("survivor-untouched", len(surv.writes) == 2 && isKeepalive(surv.writes[1]))
	verifAssert("not-yet-established", e.pl.nEstab == 0)
	if keepOut {
		verifCover("local-dominant-" + c07ord(first))
	} else {
		verifCover("remote-dominant-" + c07ord(first))
	}
	// the survivor establishes on the remote's KEEPALIVE
	surv.send(verifMsgKeepalive, nil)
	verifQuiesce()
	verifAssert("survivor-established", e.pl.nEstab == 1 && e.pl.nClose == 0)
	verifAssert("survivor-still-untouched", !surv.closed && len(surv.writes) == 2)
	e.p.stop()
	verifAssert("stop-closes-survivor-with-cease", surv.closed && surv.lastIsCease())
	verifAssert("callbacks-wellformed", e.pl.nClose == 1 && !e.pl.badOrder && !e.pl.overlap)
}

func c07ord(first int) string {
	if first == out {
		return "out-first"
	}
	return "in-first"
}

func init() {
	_ = c07ord
}

// one connection is Established before the other completes its OPEN exchange: it is kept
func Verif_C07_established_wins() {
	verifNote("one connection completes OPEN+KEEPALIVE (Established) while the other is still in OpenSent; then the other's OPEN arrives: the Established one is kept regardless of identifiers")
	e := c07Setup(2)
	first := verifChoose("established-first", 2)
	second := verifOtherDir(first)
	e.conn(first).send(verifMsgOpen, e.openBody())
	e.conn(first).send(verifMsgKeepalive, nil)
	verifQuiesce()
	verifAssert("first-established", e.pl.nEstab == 1)
	verifAssert("other-closed-when-first-established", e.conn(second).closed)
	verifAssert("other-got-cease", e.conn(second).lastIsCease())
	verifAssert("established-kept", !e.conn(first).closed && e.pl.nClose == 0)
	verifCover("established-wins-" + c07ord(first))
	e.p.stop()
	verifAssert("onclose-once", e.pl.nClose == 1)
}

// race: the second OPEN and the first connection's KEEPALIVE arrive together, so the manager's
// collision select races with the first FSM asking for Established
func Verif_C07_collision_race() {
	verifNote("race variant: the second connection's OPEN and the first connection's KEEPALIVE arrive without quiescence in between (all interleavings within the delay bound: 2 quick / 3 thorough; select arms that are ready together are always all explored)")
	d := 2
	if verifTier() >= 1 {
		d = 3
	}
	e := c07Setup(d)
	first := verifChoose("first-to-openconfirm", 2)
	second := verifOtherDir(first)
	e.conn(first).send(verifMsgOpen, e.openBody())
	verifQuiesce()
	e.conn(second).send(verifMsgOpen, e.openBody())
	e.conn(first).send(verifMsgKeepalive, nil)
	verifQuiesce()
	localDominant := verifOr(e.cfg.localID > e.remoteID, verifAnd(e.cfg.localID == e.remoteID, e.cfg.localAS > e.cfg.remoteAS))
	keepOut := verifChooseBool(localDominant)
	domWinner := in
	if keepOut {
		domWinner = out
	}
	openOut, openIn := !e.out.closed, !e.in.closed
	verifAssert("exactly-one-survivor", openOut != openIn)
	surv := in
	if openOut {
		surv = out
	}
	verifAssert("loser-got-cease", e.conn(verifOtherDir(surv)).lastIsCease())
	verifAssert("at-most-one-established", e.pl.nEstab <= 1 && !e.pl.overlap && !e.pl.badOrder)
	if surv != domWinner {
		// only legitimate if it became Established before the collision was resolved
		verifAssert("non-dominant-survivor-is-established", surv == first && e.pl.nEstab == 1 && e.pl.nClose == 0)
		verifCover("race-established-first")
	} else {
		verifCover("race-dominance")
	}
	e.p.stop()
	verifAssert("all-closed-after-stop", e.out.closed && e.in.closed && e.pl.nClose == e.pl.nEstab)
}

// ... also when the other connection has only just been accepted: its FSM exists but the manager has not yet
// approved its first transition when the first connection becomes Established
func Verif_C07_established_wins_against_just_accepted() {
	verifEngineOnly()
	verifNote("outbound connection in OpenConfirm; an inbound connection from the peer is handed to the manager and, without waiting, the remote's KEEPALIVE arrives on the outbound one: all schedules with at most 2 (quick) / 3 (thorough) delays (so the Established transition is also handled before the new inbound FSM's first transition); the outbound session is Established and kept, the inbound connection is closed, nothing wedges, stop returns with every connection closed and no goroutine left")
	d := 2
	if verifTier() >= 1 {
		d = 3
	}
	e := newPenv(false)
	e.pl.yieldInCallbacks = true
	e.p.start()
	co := e.bring(out, stOpenConfirm)
	if co == nil {
		return
	}
	verifDelayBound(d)
	ci := newStagedConn("in")
	e.p.incomingConnection(ci)
	co.send(verifMsgKeepalive, nil)
	verifQuiesce()
	verifDelayBound(0)
	verifAssert("outbound-established-and-kept", e.pl.nEstab == 1 && e.pl.nClose == 0 && !co.closed && e.p.fsmState[out] == establishedState)
	verifAssert("just-accepted-inbound-closed", ci.closed)
	// (no Cease is demanded here: C07 only says the other connection is closed; it may be closed between writing
	// its OPEN and being granted OpenSent)
	verifAssert("inbound-slot-free", e.p.fsms[in] == nil)
	verifCoverIf("closed-before-its-open", len(ci.writes) == 0)
	verifCoverIf("closed-after-its-open", len(ci.writes) > 0)
	e.p.stop()
	verifQuiesce()
	verifAssert("stop-closes-everything", co.closed && ci.closed && e.pl.nClose == 1)
	verifAssert("no-goroutine-left", verifGoroutines() == 0)
}

// the collision is detected and resolved by the rule also when an earlier inbound connection of the peer came and went
func Verif_C07_collision_after_a_dropped_inbound() {
	verifNote("real peer, identifiers and AS numbers symbolic: the outbound connection is in OpenConfirm (or still OpenSent, symbolic); a first inbound connection is accepted and dropped by the remote (FIN) before it sent its OPEN; then a second inbound connection completes its OPEN exchange (and, if the outbound one was still in OpenSent, the outbound OPEN arrives afterwards): exactly the connection initiated by the dominant speaker survives, the loser gets a Cease and is closed, the survivor establishes on KEEPALIVE")
	e := newPenv(false)
	e.p.start()
	outFirst := verifChoose("outbound-in-openconfirm-first", 2) == 1
	st := stOpenSent
	if outFirst {
		st = stOpenConfirm
	}
	co := e.bring(out, st)
	if co == nil {
		return
	}
	c1 := e.inject()
	c1.remoteClose(1)
	verifQuiesce()
	verifAssert("dropped-inbound-closed", c1.closed && e.p.fsms[in] == nil)
	verifAssert("outbound-unaffected-by-the-dropped-inbound", !co.closed && e.p.fsms[out] != nil)
	c2 := e.inject()
	verifAssert("second-inbound-accepted", !c2.closed && c2.wroteOpenFirst())
	c2.send(verifMsgOpen, e.openBody())
	verifQuiesce()
	if !outFirst {
		co.send(verifMsgOpen, e.openBody())
		verifQuiesce()
	}
	localDominant := verifOr(e.cfg.localID > e.remoteID, verifAnd(e.cfg.localID == e.remoteID, e.cfg.localAS > e.cfg.remoteAS))
	keepOut := verifChooseBool(localDominant)
	surv, loser := c2, co
	if keepOut {
		surv, loser = co, c2
	}
	verifAssert("loser-closed", loser.closed)
	verifAssert("loser-got-cease", loser.lastIsCease())
	verifAssert("survivor-not-closed", !surv.closed)
	verifAssert("survivor-untouched", len(surv.writes) == 2 && isKeepalive(surv.writes[1]))
	verifAssert("not-yet-established", e.pl.nEstab == 0)
	surv.send(verifMsgKeepalive, nil)
	verifQuiesce()
	verifAssert("survivor-established", e.pl.nEstab == 1 && e.pl.nClose == 0 && !surv.closed)
	verifCoverIf("local-dominant", keepOut)
	verifCoverIf("remote-dominant", !keepOut)
	e.p.stop()
	verifAssert("callbacks-wellformed", e.pl.nClose == 1 && !e.pl.badOrder && !e.pl.overlap)
}
