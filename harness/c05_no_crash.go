//go:build verif

package corebgp

import (
	"net"
	"net/netip"
)

// C05 — no remote input or API sequence can crash or wedge the process.
// The deciding assertions are the implicit ones the engine attaches to the real code:
// every index / slice / nil dereference / type assertion / division / close / make is an
// obligation, an explicit panic is a violation, and a state where a goroutine the harness
// waits for can never proceed is a deadlock violation.

const c05Big = 1<<17 + 8

// every exported attribute / prefix / capability decoder returns (never panics) for every slice, incl. > 65535 bytes
func Verif_C05_decoders_any_slice() {
	verifLoopBound(3)
	verifNote("each exported decoder on a byte slice of symbolic length 0..2^17+8 and symbolic contents (element loops unwound 3 times); only the implicit Go obligations are asserted")
	b := verifBuf("slice", 0, c05Big)
	flags := PathAttrFlags(verifU8("flags"))
	switch verifChoose("decoder", 21) {
	case 19:
		// the error values corebgp builds must be printable for every code/subcode (loggers call Error())
		n := &Notification{Code: verifU8("code"), Subcode: verifU8("subcode"), Data: b}
		_ = n.Error()
		_ = newNotificationError(n, verifBool("out")).Error()
		_ = n.AsSessionReset()
	case 20:
		t := &TreatAsWithdrawUpdateErr{Code: verifU8("code")}
		d := &AttrDiscardUpdateErr{Code: verifU8("code")}
		_, _ = t.Error(), d.Error()
		_, _ = t.AsSessionReset(), d.AsSessionReset()
		_ = fsmState(verifU8("state")).String()
		_ = direction(verifChoose("dir", 2))
	case 0:
		var x OriginPathAttr
		_ = x.Decode(flags, b)
	case 1:
		var x ASPathAttr
		_ = x.Decode(flags, b)
	case 2:
		var x NextHopPathAttr
		_ = x.Decode(flags, b)
	case 3:
		var x MEDPathAttr
		_ = x.Decode(flags, b)
	case 4:
		var x LocalPrefPathAttr
		_ = x.Decode(flags, b)
	case 5:
		var x AtomicAggregatePathAttr
		_ = x.Decode(flags, b)
	case 6:
		var x AggregatorPathAttr
		_ = x.Decode(flags, b)
	case 7:
		var x CommunitiesPathAttr
		_ = x.Decode(flags, b)
	case 8:
		var x OriginatorIDPathAttr
		_ = x.Decode(flags, b)
	case 9:
		var x ClusterListPathAttr
		_ = x.Decode(flags, b)
	case 10:
		var x LargeCommunitiesPathAttr
		_ = x.Decode(flags, b)
	case 11:
		_, _ = DecodeAddPathTuples(b)
	case 12:
		var t AddPathTuple
		_ = t.Decode(b)
	case 13:
		_, _ = DecodeMPReachIPv6NextHops(b)
	case 14:
		_, _ = DecodeMPIPv6Prefixes(b)
	case 15:
		_, _ = DecodeMPIPv6AddPathPrefixes(b)
	case 16:
		_ = flags.Validate(verifU8("code"), b, verifBool("wo"), verifBool("wt"))
	case 17:
		_ = NewMPReachNLRIDecodeFn(func(*c19rec, uint16, uint8, []byte, []byte) error { return nil })(&c19rec{}, flags, b)
	case 18:
		_ = NewMPUnreachNLRIDecodeFn(func(*c19rec, uint16, uint8, []byte) error { return nil })(&c19rec{}, flags, b)
	}
	verifCover("decoder-returned")
}

// UpdateDecoder.Decode wired with the real typed decoders (as the example in the repository does)
func Verif_C05_update_decode_composed() {
	lb := 1
	if verifTier() >= 1 {
		lb = 2
	}
	verifLoopBound(lb)
	verifNote("UpdateDecoder.Decode on a body of symbolic length 0..2^17+8 wired to the real field decoders (withdrawn / NLRI prefix decoders, all eleven attribute decoders, MP_REACH/MP_UNREACH with the IPv6 helpers); at most one attribute header; element loops unwound once (quick) / twice (thorough) — the decoders' own loops are covered more deeply in Verif_C05_decoders_any_slice and C18/C19; followed by UpdateNotificationFromErr on the result; only implicit obligations")
	b := verifBuf("body", 0, c05Big)
	mpReach := NewMPReachNLRIDecodeFn(func(t *c19rec, afi uint16, safi uint8, nh, nlri []byte) error {
		if _, err := DecodeMPReachIPv6NextHops(nh); err != nil {
			return err
		}
		_, err := DecodeMPIPv6Prefixes(nlri)
		return err
	})
	mpUnreach := NewMPUnreachNLRIDecodeFn(func(t *c19rec, afi uint16, safi uint8, w []byte) error {
		_, err := DecodeMPIPv6AddPathPrefixes(w)
		return err
	})
	ud := NewUpdateDecoder[*c19rec](
		NewWithdrawnRoutesDecodeFn(func(t *c19rec, p []netip.Prefix) error { return nil }),
		func(t *c19rec, code uint8, flags PathAttrFlags, v []byte) error {
			switch code {
			case PATH_ATTR_ORIGIN:
				var x OriginPathAttr
				return x.Decode(flags, v)
			case PATH_ATTR_AS_PATH:
				var x ASPathAttr
				return x.Decode(flags, v)
			case PATH_ATTR_NEXT_HOP:
				var x NextHopPathAttr
				return x.Decode(flags, v)
			case PATH_ATTR_MED:
				var x MEDPathAttr
				return x.Decode(flags, v)
			case PATH_ATTR_LOCAL_PREF:
				var x LocalPrefPathAttr
				return x.Decode(flags, v)
			case PATH_ATTR_ATOMIC_AGGREGATE:
				var x AtomicAggregatePathAttr
				return x.Decode(flags, v)
			case PATH_ATTR_AGGREGATOR:
				var x AggregatorPathAttr
				return x.Decode(flags, v)
			case PATH_ATTR_COMMUNITY:
				var x CommunitiesPathAttr
				return x.Decode(flags, v)
			case PATH_ATTR_ORIGINATOR_ID:
				var x OriginatorIDPathAttr
				return x.Decode(flags, v)
			case PATH_ATTR_CLUSTER_LIST:
				var x ClusterListPathAttr
				return x.Decode(flags, v)
			case PATH_ATTR_LARGE_COMMUNITY:
				var x LargeCommunitiesPathAttr
				return x.Decode(flags, v)
			case PATH_ATTR_MP_REACH_NLRI:
				return mpReach(t, flags, v)
			case PATH_ATTR_MP_UNREACH_NLRI:
				return mpUnreach(t, flags, v)
			}
			return nil
		},
		NewNLRIAddPathDecodeFn(func(t *c19rec, p []AddPathPrefix) error { return nil }))
	// bound: at most 1 attribute header (the composition with every typed decoder is the point here)
	e := c16Expected(b, 1)
	if !e.aborted && !e.bounded {
		return
	}
	err := ud.Decode(&c19rec{}, b)
	n := UpdateNotificationFromErr(err)
	verifAssert("notification-iff-error", (n == nil) == (err == nil))
	verifCover("decoded")
}

// arbitrary bytes at every session state of one peer; afterwards another peer still establishes and Close returns
func Verif_C05_garbage_then_other_peer() {
	verifEngineOnly()
	verifLoopBound(17) // (the 16-byte marker loop must be able to complete)
	T := 20
	if verifTier() >= 1 {
		T = 23
	}
	verifNote("Server with two passive peers A and B on one listener; A's inbound connection is brought to OpenSent / OpenConfirm / Established, then receives 19 symbolic header bytes + a symbolic tail of 0..T bytes (20 quick / 23 thorough) and EOF (1 short read): no panic, no deadlock; then B's connection establishes and Server.Close returns with every goroutine gone")
	e := newSrvEnv()
	ra, rb := netip.AddrFrom4([4]byte{192, 0, 2, 1}), netip.AddrFrom4([4]byte{192, 0, 2, 2})
	for _, r := range []netip.Addr{ra, rb} {
		verifAssert("addpeer", e.s.AddPeer(PeerConfig{RemoteAddress: r, LocalAS: 65000, RemoteAS: 65001}, e.pl, WithPassive()) == nil)
	}
	e.serve()
	a := newStagedConn("a")
	a.remote = ra
	e.lis.ch <- a
	verifQuiesce()
	state := verifChoose("state", 3)
	if state >= stOpenConfirm {
		a.send(verifMsgOpen, mkOpenBody(65001, 90, 0x0a000002))
		verifQuiesce()
	}
	if state >= stEstablished {
		a.send(verifMsgKeepalive, nil)
		verifQuiesce()
	}
	hdr := verifBuf("header", 19, 19)
	tail := verifBuf("tail", 0, T)
	a.shortReads = 1
	a.chunks = append(a.chunks, hdr)
	if len(tail) > 0 {
		a.chunks = append(a.chunks, tail)
	}
	a.endMode = 1
	a.deliver(len(a.chunks), true)
	verifQuiesce()
	verifAssert("garbage-connection-closed", a.closed)
	// the server still serves its other peer
	est := e.pl.nEstab
	b := newStagedConn("b")
	b.remote = rb
	e.lis.ch <- b
	verifQuiesce()
	e.establish(b)
	verifAssert("other-peer-still-establishes", e.pl.nEstab == est+1 && !b.closed)
	e.s.Close()
	verifAssert("close-returns-and-serve-ends", <-e.serveErr == ErrServerClosed)
	verifQuiesce()
	verifAssert("no-goroutine-left", verifGoroutines() == 0)
	verifCover("survived")
}

// the same with the garbage pipelined right behind a message that already ends the session: the reader
// goroutine is then ahead of an FSM that is tearing the connection down
func Verif_C05_garbage_behind_session_ending_message() {
	verifEngineOnly()
	verifLoopBound(17)
	verifNote("Server with two passive peers A and B on one listener; A's inbound connection is brought to OpenSent / OpenConfirm / Established; then a message that ends the session there (KEEPALIVE in OpenSent, OPEN in OpenConfirm / Established: FSM error) arrives with 19 symbolic header bytes + a symbolic tail of 0..2 bytes + EOF pipelined right behind it; at most 1 delay: no panic, no deadlock; then B's connection establishes and Server.Close returns with every goroutine gone")
	e := newSrvEnv()
	ra, rb := netip.AddrFrom4([4]byte{192, 0, 2, 1}), netip.AddrFrom4([4]byte{192, 0, 2, 2})
	for _, r := range []netip.Addr{ra, rb} {
		verifAssert("addpeer", e.s.AddPeer(PeerConfig{RemoteAddress: r, LocalAS: 65000, RemoteAS: 65001}, e.pl, WithPassive()) == nil)
	}
	e.serve()
	a := newStagedConn("a")
	a.remote = ra
	e.lis.ch <- a
	verifQuiesce()
	state := verifChoose("state", 3)
	if state >= stOpenConfirm {
		a.send(verifMsgOpen, mkOpenBody(65001, 90, 0x0a000002))
		verifQuiesce()
	}
	if state >= stEstablished {
		a.send(verifMsgKeepalive, nil)
		verifQuiesce()
	}
	hdr := verifBuf("header", 19, 19)
	tail := verifBuf("tail", 0, 2)
	verifDelayBound(1)
	if state == stOpenSent {
		a.chunks = append(a.chunks, mkFrame(verifMsgKeepalive, nil))
	} else {
		a.chunks = append(a.chunks, mkFrame(verifMsgOpen, mkOpenBody(65001, 90, 0x0a000002)))
	}
	a.chunks = append(a.chunks, hdr)
	if len(tail) > 0 {
		a.chunks = append(a.chunks, tail)
	}
	a.endMode = 1
	a.deliver(len(a.chunks), true)
	verifQuiesce()
	verifDelayBound(0)
	verifAssert("garbage-connection-closed", a.closed)
	est := e.pl.nEstab
	b := newStagedConn("b")
	b.remote = rb
	e.lis.ch <- b
	verifQuiesce()
	e.establish(b)
	verifAssert("other-peer-still-establishes", e.pl.nEstab == est+1 && !b.closed)
	e.s.Close()
	verifAssert("close-returns-and-serve-ends", <-e.serveErr == ErrServerClosed)
	verifQuiesce()
	verifAssert("no-goroutine-left", verifGoroutines() == 0)
	verifCover("survived-pipelined-garbage")
}

// every order of API calls: nothing panics, nothing wedges, Close returns
func Verif_C05_api_call_orders() {
	verifEngineOnly()
	N := 3
	if verifTier() >= 1 {
		N = 4
	}
	verifNote("every sequence of N calls (3 quick / 4 thorough) from {Serve (in a goroutine), Close, AddPeer, DeletePeer, GetPeer, ListPeers, 'the listener of the latest Serve fails'} on a fresh server with a dial that stays pending; finally Close: must return, Serve (if started) must return, no panic, no deadlock")
	s, _ := NewServer(netip.AddrFrom4([4]byte{10, 0, 0, 1}))
	verifDial = &dialScript{outcomes: []dialOutcome{dialPendingThenFail}, mk: func(int) *symConn { return newStagedConn("out") }}
	pl := newMonPlugin()
	ra := netip.AddrFrom4([4]byte{192, 0, 2, 1})
	serves := 0
	done := make(chan error, 4)
	var lastLis *failingListener
	for i := 0; i < N; i++ {
		switch verifChoose("call", 7) {
		case 0:
			serves++
			lis := &failingListener{symListener: newSymListener(), fail: make(chan struct{})}
			lastLis = lis
			go func() { done <- s.Serve([]net.Listener{lis}) }()
			verifQuiesce()
		case 1:
			s.Close()
		case 2:
			_ = s.AddPeer(PeerConfig{RemoteAddress: ra, LocalAS: 65000, RemoteAS: 65001}, pl)
		case 3:
			_ = s.DeletePeer(ra)
		case 4:
			_, _ = s.GetPeer(ra)
		case 5:
			_ = s.ListPeers()
		case 6:
			// not an API call but an environment event the API must survive: the listener of the latest Serve fails
			if lastLis != nil {
				close(lastLis.fail)
				lastLis = nil
				verifQuiesce()
			}
		}
	}
	s.Close()
	for i := 0; i < serves; i++ {
		err := <-done
		verifAssert("serve-returns-an-error-after-close", err != nil)
	}
	verifQuiesce()
	verifCover("api-orders")
}

// a connection flap on the (reused) outbound FSM, then shutdown at a later session state: stop must still return
func Verif_C05_flap_then_stop() {
	verifNote("active peer: first outbound connection dropped by the remote (FIN / RST) in OpenSent, OpenConfirm or Established; the same FSM re-dials (its retry timer fired) and the second connection is brought to OpenSent / OpenConfirm / Established; then peer.stop(): must return (deadlock = violation) with everything closed")
	e := newPenv(false)
	e.dial.outcomes = []dialOutcome{dialOK, dialOK, dialPendingThenFail}
	e.p.start()
	c1 := e.bring(out, verifChoose("first-state", 3))
	c1.remoteClose(1 + verifChoose("fin-or-rst", 2))
	verifQuiesce()
	verifAssert("first-connection-closed", c1.closed)
	f := e.p.fsms[out]
	if f == nil {
		verifAssert("outbound-fsm-kept", false)
		return
	}
	switch {
	case e.p.fsmState[out] == idleState:
		verifFireTimer(f.idleHoldTimer)
	default:
		verifFireTimer(f.connectRetryTimer)
	}
	c2 := e.bring(out, verifChoose("second-state", 3))
	verifAssert("second-connection-on-the-same-fsm", c2 != nil && c2 != c1 && e.p.fsms[out] == f)
	e.p.stop()
	verifAssert("stop-returned-and-closed-everything", c2.closed && e.pl.nClose == e.pl.nEstab)
	verifQuiesce()
	verifAssert("no-goroutine-left", verifGoroutines() == 0)
	verifCover("flap-then-stop")
}
